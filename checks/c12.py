"""C12 - conditional sampling fixes the given columns and follows the conditional law."""
import copy
import itertools
import time

import numpy as np
import pandas as pd
import z3

import copulas.multivariate.gaussian as G
from copulas.multivariate.gaussian import GaussianMultivariate
from copulas.utils import EPSILON

from symx.core import Ctx, SymReal, explore, model_value, objarr, sym, tz, RV
from symx.report import Check
from symx.rng import RNGModel, D
from symx.shim import det
from . import gm
from .copsuite import pool_map

NAMES = ['c', 'a', 'd', 'b', 'e', 'f']   # deliberately not in alphabetical order (Index.difference sorts)


def cond_dist(d, cond_idx, timeout_ms=60000):
    """orthogonality-principle oracle for _get_conditional_distribution on a symbolic PD matrix"""
    cols = NAMES[:d]
    res = []
    df, M = gm.sym_corr(cols, unit_diag=False)
    ccols = [cols[i] for i in cond_idx]
    z = [SymReal(z3.Real(f'z_{c}')) for c in ccols]

    def fn(ctx):
        ctx.assume(*gm.minors_pd(M))
        m = gm.fitted_model(cols, df)
        conds = pd.Series(objarr(z), index=ccols)
        mu, sg, c1 = m._get_conditional_distribution(conds)
        return mu, sg, list(c1)
    with gm.gm_patches():
        paths, ex, _ = explore(fn, max_paths=8)
    if len(paths) != 1 or paths[0].status != 'ok':
        return [('trace', 'error', str([(p.status, repr(p.exc)) for p in paths])[:300], 0.0)]
    mu, sg, c1 = paths[0].value
    hyps = gm.minors_pd(M)
    free = [c for c in cols if c not in ccols]
    res.append(('returned columns are exactly the unconditioned ones', 'unsat' if sorted(c1) == sorted(free) else 'sat', str(c1), 0.0))
    if sorted(c1) != sorted(free):
        return res
    ix = {c: i for i, c in enumerate(cols)}
    S = lambda a, b: tz(M[ix[a], ix[b]])  # noqa
    mu = np.asarray(mu, dtype=object)
    sg = np.asarray(sg, dtype=object)
    # A from linearity of mu in z: A[i][k] = d mu_i / d z_k ; mu(0) = 0
    from symx.diff import diff
    A = [[diff(tz(mu[i]), zk.t) for zk in z] for i in range(len(c1))]
    t0 = time.time()
    goals = []
    # mu == A z (linearity, zero intercept)
    for i in range(len(c1)):
        goals.append(tz(mu[i]) == z3.Sum([A[i][k] * z[k].t for k in range(len(z))]))
    # orthogonality: S12 - A S22 == 0
    for i, a in enumerate(c1):
        for k2, b in enumerate(ccols):
            goals.append(S(a, b) - z3.Sum([A[i][k] * S(ccols[k], b) for k in range(len(z))]) == 0)
    r = _valid_each(hyps, goals, timeout_ms, M)
    res.append(('mean = A z with S12 - A S22 = 0 (orthogonality principle)', r[0], r[1], time.time() - t0))
    # covariance of the residual X1 - A X2
    t0 = time.time()
    goals = []
    for i, a in enumerate(c1):
        for j, b in enumerate(c1):
            cov = S(a, b) - z3.Sum([A[i][k] * S(ccols[k], b) for k in range(len(z))]) \
                - z3.Sum([S(a, ccols[k]) * A[j][k] for k in range(len(z))]) \
                + z3.Sum([A[i][k] * S(ccols[k], ccols[l]) * A[j][l] for k in range(len(z)) for l in range(len(z))])
            goals.append(tz(sg[i, j]) == cov)
            goals.append(tz(sg[i, j]) == tz(sg[j, i]))
    if len(z) <= 2:
        r = _valid_each(hyps, goals, timeout_ms, M)
    else:
        # Lemma chain for large conditioning sets (cut rule; every step a solver query):
        #  (1) orthogonality E_il := S(a_i,c_l) - sum_k A_ik S(c_k,c_l) = 0            [shown above]
        #  (2) sg_ij = S(a_i,a_j) - sum_k A_ik S(c_k,a_j)                              [rational identity]
        #  (3) for *arbitrary* reals a_ik:  Cov_ij(a) = (S_ij - sum_k a_ik S(c_k,a_j)) - sum_l E_il(a) a_jl   [polynomial identity]
        #  hence Cov_ij(A) = sg_ij; symmetry of sg from (2) by the same identity route.
        okc = res[-1][1] == 'unsat'
        step2 = []
        for i, a in enumerate(c1):
            for j, b in enumerate(c1):
                step2.append(tz(sg[i, j]) == S(a, b) - z3.Sum([A[i][k] * S(ccols[k], b) for k in range(len(z))]))
        r2 = _valid_each(hyps, step2, timeout_ms, M)
        okc = okc and r2[0] == 'unsat'
        av = [[z3.Real(f'A_{i}_{k}') for k in range(len(z))] for i in range(len(c1))]
        sgv = [[z3.Real(f'sg_{i}_{j}') for j in range(len(c1))] for i in range(len(c1))]
        hyp3 = []
        goal3 = []
        for i, a in enumerate(c1):
            for l, cl in enumerate(ccols):
                hyp3.append(S(a, cl) - z3.Sum([av[i][k] * S(ccols[k], cl) for k in range(len(z))]) == 0)
            for j, b in enumerate(c1):
                hyp3.append(sgv[i][j] == S(a, b) - z3.Sum([av[i][k] * S(ccols[k], b) for k in range(len(z))]))
        sym_h = [S(x_, y_) == S(y_, x_) for x_ in cols for y_ in cols]
        lem3 = []
        for i, a in enumerate(c1):
            for j, b in enumerate(c1):
                covv = S(a, b) - z3.Sum([av[i][k] * S(ccols[k], b) for k in range(len(z))]) \
                    - z3.Sum([S(a, ccols[k]) * av[j][k] for k in range(len(z))]) \
                    + z3.Sum([av[i][k] * S(ccols[k], ccols[l]) * av[j][l] for k in range(len(z)) for l in range(len(z))])
                simple = S(a, b) - z3.Sum([av[i][k] * S(ccols[k], b) for k in range(len(z))])
                Ei = [S(a, ccols[l]) - z3.Sum([av[i][k] * S(ccols[k], ccols[l]) for k in range(len(z))]) for l in range(len(z))]
                ident = covv == simple - z3.Sum([Ei[l] * av[j][l] for l in range(len(z))])
                okc = okc and _valid([], ident, timeout_ms)[0] == 'unsat'          # (3): no hypotheses at all
                lem3.append(ident)
                goal3.append(sgv[i][j] == covv)
        # final linear step on the abstracted symbols
        r3 = _valid(hyp3 + lem3, z3.And(*goal3), timeout_ms)
        okc = okc and r3[0] == 'unsat'
        # symmetry: sg_ij - sg_ji = sum_k A_jk S(c_k,a_i) - sum_k A_ik S(c_k,a_j); both equal sum_kl A_ik S(c_k,c_l) A_jl by (1)
        sym_ok = True
        for i in range(len(c1)):
            for j in range(i + 1, len(c1)):
                quad = z3.Sum([av[i][k] * S(ccols[k], ccols[l]) * av[j][l] for k in range(len(z)) for l in range(len(z))])
                Ei = [S(c1[i], ccols[l]) - z3.Sum([av[i][k] * S(ccols[k], ccols[l]) for k in range(len(z))]) for l in range(len(z))]
                Ej = [S(c1[j], ccols[l]) - z3.Sum([av[j][k] * S(ccols[k], ccols[l]) for k in range(len(z))]) for l in range(len(z))]
                id1 = z3.Sum([av[j][l] * S(ccols[l], c1[i]) for l in range(len(z))]) == quad + z3.Sum([Ei[l] * av[j][l] for l in range(len(z))])
                id2 = z3.Sum([av[i][l] * S(ccols[l], c1[j]) for l in range(len(z))]) == quad + z3.Sum([Ej[l] * av[i][l] for l in range(len(z))])
                sym_ok = sym_ok and _valid(sym_h, z3.And(id1, id2), timeout_ms)[0] == 'unsat'
                sym_ok = sym_ok and _valid(hyp3 + sym_h + [id1, id2], sgv[i][j] == sgv[j][i], timeout_ms)[0] == 'unsat'
        r = ('unsat', None) if (okc and sym_ok) else ('unknown', None)
    res.append(('covariance = Cov(X1 - A X2), symmetric', r[0], r[1], time.time() - t0))
    # positive semi-definite (principal minors >= 0) for |free| <= 2, by the Schur determinant identities
    #   sb_ii * det(S22) = det(S[{i}+cond]),   det(sb) * det(S22) = det(S[free+cond])
    # (each identity is a solver query; the sign then follows from the positive principal minors of a
    # positive-definite matrix, which are added as hypotheses - a true fact about PD matrices)
    # (not attempted for 2 free and 2 conditioned columns, d = 4: the determinant identity det(sb)*det(S22) = det(S) with a
    #  2x2 inverse inside was measured to stay `unknown` for 300 s, directly and with cleared denominators)
    if len(c1) <= 2 and not (len(c1) == 2 and len(ccols) >= 2):
        t0 = time.time()
        import itertools as _it
        pm = []
        for k in range(1, d + 1):
            for sub in _it.combinations(range(d), k):
                pm.append(tz(det(M[np.ix_(sub, sub)])) > 0)
        ci = [ix[c] for c in ccols]
        d22 = tz(det(M[np.ix_(ci, ci)]))
        lem = []
        okl = True
        for i, a in enumerate(c1):
            sub = [ix[a]] + ci
            l_ = tz(sg[i, i]) * d22 == tz(det(M[np.ix_(sub, sub)]))
            okl = okl and _valid_each(hyps, [l_], timeout_ms, M)[0] == 'unsat'
            lem.append(l_)
        if len(c1) == 2:
            sub = [ix[c1[0]], ix[c1[1]]] + ci
            l_ = tz(det(sg)) * d22 == tz(det(M[np.ix_(sub, sub)]))
            okl = okl and _valid_each(hyps, [l_], timeout_ms, M)[0] == 'unsat'
            lem.append(l_)
        goals = [tz(sg[i, i]) >= 0 for i in range(len(c1))]
        if len(c1) == 2:
            goals.append(tz(det(sg)) >= 0)
        r = _valid(pm + lem, z3.And(*goals), timeout_ms) if okl else ('unknown', None)
        res.append(('covariance positive semi-definite (principal minors >= 0)', r[0], r[1], time.time() - t0))
    return res


def _valid_each(hyps, goals, timeout_ms, M):
    """each equation separately: first as one z3 query; if that is not decided quickly, as a rational
    identity with cleared denominators (every divisor shown non-zero from the positive principal minors)"""
    import itertools as _it
    from symx.trans import prove_identity
    d = M.shape[0]
    pm = [tz(det(M[np.ix_(sub, sub)])) > 0 for k in range(1, d + 1) for sub in _it.combinations(range(d), k)]
    r = _valid(hyps, z3.And(*goals), min(timeout_ms, 20000))
    if r[0] in ('unsat', 'sat'):
        return r
    for g in goals:
        if not (z3.is_eq(g)):
            rr = _valid(hyps + pm, g, timeout_ms)
            if rr[0] != 'unsat':
                return rr
            continue
        lhs, rhs = g.children()
        pr = prove_identity(hyps + pm, lhs, rhs, timeout_ms=timeout_ms)
        if pr['status'] != 'unsat':
            return (pr['status'] if pr['status'] in ('sat', 'unknown') else 'unknown', pr.get('model'))
    return ('unsat', None)


def _valid(hyps, goal, timeout_ms):
    s = z3.Solver()
    s.set('timeout', timeout_ms)
    s.add(*hyps)
    s.add(z3.Not(goal))
    r = s.check()
    if r == z3.sat:
        m = s.model()
        return 'sat', {str(d_): model_value(m, d_()) for d_ in m.decls() if d_.arity() == 0}
    return str(r), None


def sample_flow(d, cond_idx, container, n=2, history=False):
    """the real sample(n, conditions) on stub marginals and a symbolic RNG: dataflow clauses.
    cond_idx is an ordered tuple: the order in which the caller lists the conditions."""
    cols = NAMES[:d]
    ccols = [cols[i] for i in cond_idx]
    df, M = gm.sym_corr(cols)
    vals = {c: SymReal(z3.Real(f'x_{c}')) for c in ccols}
    res = []

    def fn(ctx):
        rng = RNGModel()
        log = []
        m = gm.fitted_model(cols, df, log)
        if container == 'dict':
            conds = dict(vals)
        else:
            conds = pd.Series(objarr([vals[c] for c in ccols]), index=ccols)
        before = copy.copy(conds) if container == 'dict' else conds.copy()
        with gm.gm_patches(rng=rng):
            if history:
                # an earlier request on the same instance, same columns, other values: the call under test must not depend on it
                prev = {c: SymReal(z3.Real(f'xprev_{c}')) for c in ccols}
                m.sample(n, conditions=dict(prev) if container == 'dict' else pd.Series(objarr([prev[c] for c in ccols]), index=ccols))
                del rng.requests[:]
            out = m.sample(n, conditions=conds)
            # reference: what _get_conditional_distribution returns for the documented normal scores
            zs = pd.Series(objarr([SymReal(gm.PHIINV(tz(gm.s_min(gm.s_max(SymReal(gm.FJ(z3.IntVal(cols.index(c)), vals[c].t)), float(EPSILON)), 1 - float(EPSILON)))))
                                   for c in ccols]), index=ccols)
            # (on a fresh model object: the reference must not see any state the first request left behind)
            mu_ref, sg_ref, c_ref = gm.fitted_model(cols, df, [])._get_conditional_distribution(zs)
        return {'out': out, 'req': list(rng.requests), 'log': log, 'conds': conds, 'before': before,
                'ref': (np.asarray(mu_ref, dtype=object), np.asarray(sg_ref, dtype=object), list(c_ref))}
    with gm.gm_patches():
        paths, ex, _ = explore(fn, max_paths=64)
    for p in paths:
        if p.status != 'ok':
            res.append((f'sample(conditions={container}) raises {type(p.exc).__name__}: {str(p.exc)[:100]}', 'sat', None, 0.0))
            continue
        v = p.value
        out = v['out']
        ok = isinstance(out, pd.DataFrame) and list(out.columns) == cols and len(out) == n
        res.append((f'[{container}] {n} rows, training columns in order', 'unsat' if ok else 'sat', None, 0.0))
        if not ok:
            continue
        s = z3.Solver()
        s.add(*p.ctx.pc)
        # conditioned columns equal the given values in every row
        bad = [tz(out[c].iloc[r]) != vals[c].t for c in ccols for r in range(n)]
        s.push()
        s.add(z3.Or(*bad))
        res.append((f'[{container}] conditioned columns equal the given values in every row', str(s.check()), None, 0.0))
        s.pop()
        # one RNG request with the conditional mean/covariance of the documented normal scores
        req = v['req']
        mu_ref, sg_ref, c_ref = v['ref']
        ok = len(req) == 1 and req[0]['kind'] == 'multivariate_normal' and req[0]['n'] == n * len(c_ref)
        res.append((f'[{container}] exactly one multivariate_normal request of n rows', 'unsat' if ok else 'sat', None, 0.0))
        if not ok:
            continue
        mean, cov = req[0]['params']
        mean = np.asarray(mean, dtype=object)
        cov = np.asarray(cov, dtype=object)
        diffs = [tz(mean[i]) != tz(mu_ref[i]) for i in range(len(c_ref))] + \
                [tz(cov[i, j]) != tz(sg_ref[i, j]) for i in range(len(c_ref)) for j in range(len(c_ref))]
        s.push()
        s.add(z3.Or(*diffs))
        res.append((f'[{container}] request parameters = conditional law at z_j = PhiInv(clip(F_j(x_j)))', str(s.check()), None, 0.0))
        s.pop()
        # free columns: out[r][col] = Q_col(Phi(draw[r][position of col in the returned column list]))
        bad = []
        st = req[0]['state']
        k = len(c_ref)
        for r in range(n):
            for pos, c in enumerate(c_ref):
                j = cols.index(c)
                draw = D(st, z3.IntVal(r * k + pos))
                want = gm.QJ(z3.IntVal(j), gm.PHI(draw))
                bad.append(tz(out[c].iloc[r]) != want)
        s.push()
        s.add(z3.Or(*bad))
        res.append((f'[{container}] free columns = Q_col(Phi(draw)) aligned by column name', str(s.check()), None, 0.0))
        s.pop()
        # caller's conditions object unchanged
        if container == 'dict':
            same = list(v['conds'].keys()) == list(v['before'].keys()) and all(v['conds'][c_] is v['before'][c_] for c_ in v['conds'])
        else:
            same = list(v['conds'].index) == list(v['before'].index) and all(
                tz(a).eq(tz(b)) for a, b in zip(v['conds'].to_numpy(), v['before'].to_numpy()))
        res.append((f'[{container}] conditions object not modified', 'unsat' if same else 'sat', None, 0.0))
    return res


def task(a):
    t0 = time.time()
    try:
        if a[0] == 'dist':
            return (a, cond_dist(a[1], a[2], a[3]), time.time() - t0)
        return (a, sample_flow(a[1], a[2], a[3], history=(a[0] == 'flow2')), time.time() - t0)
    except BaseException:
        import traceback
        return (a, [('harness error ' + traceback.format_exc()[-1200:], 'error', None, 0.0)], 0.0)


# ---------------------------------------------------------------- concrete replay

def _real_model(d, seed=0):
    rs = np.random.RandomState(seed)
    L = rs.normal(size=(d, d))
    cov = L @ L.T + 0.3 * np.eye(d)
    data = pd.DataFrame(rs.multivariate_normal(np.zeros(d), cov, size=200), columns=NAMES[:d])
    from copulas.univariate import GaussianUnivariate
    m = GaussianMultivariate(distribution=GaussianUnivariate, random_state=7)
    m.fit(data)
    return m, data


def concrete_violation(d, cond_idx, container):
    """value sets: inside the training range; far above it (marginal cdf rounds to exactly 1: the EPSILON clip decides);
    far below it (cdf underflows to 0)"""
    for shift in (None, 9.0, -40.0):
        bad, detail = _concrete_violation(d, cond_idx, container, shift)
        if bad:
            return bad, detail
    return False, ''


def _concrete_violation(d, cond_idx, container, shift):
    m, data = _real_model(d)
    cols = NAMES[:d]
    ccols = [cols[i] for i in cond_idx]
    if shift is None:
        vals = {c: float(data[c].iloc[3]) + 0.25 for c in ccols}
    else:
        vals = {c: float(data[c].mean() + (shift if k == 0 else 0.3) * data[c].std()) for k, c in enumerate(ccols)}
    # an earlier request on the same instance and columns with other values must not influence this one
    try:
        prev = {c: float(data[c].iloc[9]) - 0.4 for c in ccols}
        m.sample(2, conditions=dict(prev) if container == 'dict' else pd.Series(prev))
    except Exception as e:
        return True, f'sample(2, conditions={container} on {ccols}) raises {type(e).__name__}: {e}'
    conds = dict(vals) if container == 'dict' else pd.Series(vals)
    before = copy.deepcopy(conds)
    try:
        out = m.sample(4, conditions=conds)
    except Exception as e:
        return True, f'sample(4, conditions={container} on {ccols}) raises {type(e).__name__}: {e}'
    if list(out.columns) != cols or len(out) != 4 or out.isna().any().any() or not np.all(np.isfinite(out.to_numpy(dtype=float))):
        return True, f'conditions {vals}: schema/NaN/inf in the output: {list(out.columns)} rows={len(out)} values {out.to_numpy()[0].tolist()}'
    for c in ccols:
        if not np.allclose(out[c].to_numpy(), vals[c]):
            return True, f'conditioned column {c} not fixed: {out[c].to_numpy()} vs {vals[c]}'
    same = (conds == before) if container == 'dict' else conds.equals(before)
    if not same:
        return True, 'conditions object modified'
    # conditional law against numpy's closed form
    S = m.correlation.to_numpy()
    i2 = [cols.index(c) for c in ccols]
    i1 = [i for i in range(d) if i not in i2]
    from scipy import stats
    z = np.array([stats.norm.ppf(np.clip(m.univariates[cols.index(c)].cdf(np.array([vals[c]])), EPSILON, 1 - EPSILON))[0] for c in ccols])
    A = np.linalg.solve(S[np.ix_(i2, i2)].T, S[np.ix_(i1, i2)].T).T
    mu = A @ z
    sg = S[np.ix_(i1, i1)] - A @ S[np.ix_(i2, i1)]
    mu_c, sg_c, c1 = m._get_conditional_distribution(pd.Series(z, index=ccols))
    order = [cols.index(c) for c in c1]
    pos = [i1.index(o) for o in order]
    if not np.allclose(np.asarray(mu_c, dtype=float), mu[pos], atol=1e-8) or not np.allclose(np.asarray(sg_c, dtype=float), sg[np.ix_(pos, pos)], atol=1e-8):
        return True, f'conditional mean/covariance differ from S12 S22^-1 z / Schur complement: {mu_c} vs {mu[pos]}'
    # end to end with a seed: the free columns are Q_j(Phi(draw)) of N(mu, sg) draws
    m.set_random_state(11)
    out = m.sample(3, conditions=copy.deepcopy(conds))
    draws = np.random.RandomState(11).multivariate_normal(mu[pos], sg[np.ix_(pos, pos)], size=3)
    for k, c in enumerate(c1):
        want = m.univariates[cols.index(c)].percent_point(stats.norm.cdf(draws[:, k]))
        if not np.allclose(out[c].to_numpy(), want, rtol=1e-6, atol=1e-8):
            return True, (f'sample(conditions={dict(vals)} listed as {ccols}): column {c} does not follow the conditional law '
                          f'(got {out[c].to_numpy()[:2]}, expected {want[:2]})')
    return False, ''


def replay(dt):
    bad, detail = concrete_violation(dt['d'], dt['cond'], dt['container'])
    print(detail)
    return bad


def run(tier, seed):
    ck = Check('C12', tier, seed, 'proof',
               'symbolic execution of the real _get_conditional_distribution / sample(conditions) on a symbolic positive-definite '
               'correlation, stub marginals and a symbolic RNG; z3 decides every identity')
    ck.encode(GaussianMultivariate._get_conditional_distribution, GaussianMultivariate._get_normal_samples,
              GaussianMultivariate.sample, GaussianMultivariate._transform_to_normal)
    ck.stubs = ['np.linalg.inv: adjugate/determinant on symbolic entries', 'marginals: uninterpreted F_j, Q_j',
                'stats.norm.cdf/ppf: uninterpreted Phi / PhiInv with PhiInv(Phi(x)) = x', 'np.random: RNG model']
    dmax = 3 if tier == 'quick' else 4
    ck.bounds = {'columns d': f'2..{dmax}', 'conditioning sets': 'all non-empty proper subsets', 'rows': 2,
                 'correlation': 'any symmetric positive-definite real matrix (leading minors > 0)', 'containers': ['dict', 'Series']}
    ck.outside = ['the distribution of the draws (numpy multivariate_normal)', 'PSD of the Schur complement for more than 2 free columns, and for 2 free with 2 or more conditioned columns (d = 4; the solver does not decide the determinant identity)',
                  'd in 5..6: same code path (no dimension-specific branches); not enumerated']
    ck.assumptions = ['oracle: orthogonality principle (regression characterisation of the conditional Gaussian), independent of the Schur formula the code uses']
    jobs = []
    for d in range(2, dmax + 1):
        for k in range(1, d):
            for cs in itertools.combinations(range(d), k):
                tmo = 60000 if tier == 'quick' else 300000
                jobs.append(('dist', d, cs, tmo))
    for d in (2, 3, 4):
        for cs in [(0,), (d - 1,)] + ([(0, 2), (2, 0), (2, 1)] if d == 3 else []) + ([(3, 1), (2, 3, 0)] if d == 4 else []):
            for cont in ('dict', 'Series'):
                jobs.append(('flow', d, cs, cont))
    for d, cs, cont in ((2, (0,), 'dict'), (3, (0, 2), 'Series'), (3, (1,), 'dict')) + (((4, (3, 1), 'dict'),) if tier != 'quick' else ()):
        jobs.append(('flow2', d, cs, cont))
    for a, res, secs in pool_map(task, jobs):
        for (name, st, model, s_) in res:
            nm = f"{'flow after an earlier request on the same columns' if a[0] == 'flow2' else a[0]} d={a[1]} cond={[NAMES[i] for i in a[2]]}: {name}"
            ck.ob(nm, st if st in ('unsat', 'sat', 'unknown') else 'error', s_ or 0.0)
            if st == 'unsat':
                continue
            cont = a[3] if a[0].startswith('flow') else 'dict'
            done = False
            for c2 in ([cont] if a[0].startswith('flow') else ['dict', 'Series']):
                try:
                    bad, detail = concrete_violation(a[1], list(a[2]), c2)
                except Exception as e:
                    bad, detail = False, repr(e)
                if bad:
                    key = 'sample(conditions=Series)' if ('Series' in name and 'raises' in name) else name[:60]
                    ck.violation(f'{key}', f'{nm}: {detail}', {'d': a[1], 'cond': list(a[2]), 'container': c2})
                    done = True
                    break
            if not done:
                ck.inconcl(f'{nm}: solver/harness said {st}; not reproduced on the real code')
    # conformance witnesses on the real code
    n = 0
    for d in (2, 3, 4):
        for cs in [(0,), (1,)] + ([(0, 2), (2, 0)] if d >= 3 else []):
            for cont in ('dict', 'Series'):
                n += 1
                bad, detail = concrete_violation(d, list(cs), cont)
                if bad:
                    key = 'sample(conditions=Series)' if cont == 'Series' and 'raises' in detail else f'conformance d={d}'
                    ck.violation(key, detail, {'d': d, 'cond': list(cs), 'container': cont})
    ck.traces_validated = n
    return ck.finish()
