"""C16 - a fitted vine is a regular vine of the requested type and depth.

The real VineCopula.train_vine / Tree.fit / _build_first_tree / _build_kth_tree / get_tau_matrix /
Edge.* run on a symbolic symmetric tau matrix (ties allowed) with fresh symbolic taus for deeper
levels; select_copula, kendalltau and the h-function numerics are stubs; np.empty is havoc.
Every feasible path = every order type of the taus that the construction can distinguish."""
import itertools
import time
import warnings

import numpy as np
import z3

import copulas.multivariate.tree as TR
import copulas.multivariate.vine as VN
from copulas.bivariate.base import CopulaTypes
from copulas.multivariate.vine import VineCopula

from symx.core import Ctx, SymReal, explore, model_value, objarr, sym, tz
from symx.report import Check
from symx.shim import Havoc, NPShim, ns, patched, uses_havoc
from . import stubs


class FakeCopula:
    def __init__(self, ctype, theta):
        self.copula_type = ctype
        self.theta = theta
        self.tau = None


class FakeBivariate:
    """stands for copulas.bivariate.base.Bivariate inside the tree module"""
    LOG = []
    N = 0
    HSYM = False

    def __init__(self, copula_type=None, random_state=None):
        self.copula_type = copula_type
        self.theta = None

    @classmethod
    def select_copula(cls, X):
        cls.N += 1
        th = 1.0 + cls.N           # admissible theta for the (stub) Clayton family, distinct per edge
        cls.LOG.append(('select_copula', np.asarray(X, dtype=object).copy(), th))
        return FakeCopula(CopulaTypes.CLAYTON, th)

    def partial_derivative(self, X):
        X = np.asarray(X, dtype=object)
        FakeBivariate.LOG.append(('h', self.copula_type, self.theta, X.copy()))
        if FakeBivariate.HSYM:
            out = []
            for r in range(len(X)):
                FakeBivariate.N += 1
                v = SymReal(z3.Real(f'h#{FakeBivariate.N}'))
                Ctx.cur.assume(v.t > 0, v.t < 1)
                out.append(v)
            return objarr(out)
        return np.full(len(X), 0.5)


def vine_patches(kt):
    sh = NPShim(havoc_empty=True, force_obj=True)
    return patched(TR, np=sh, Bivariate=FakeBivariate, scipy=ns(stats=ns(kendalltau=kt))), patched(VN, np=sh)


def sym_tau(d):
    tau = np.empty((d, d), dtype=object)
    cons = []
    for i in range(d):
        for j in range(i, d):
            if i == j:
                tau[i, j] = 1.0
            else:
                t = sym(f't{i}{j}')
                tau[i, j] = tau[j, i] = t
                cons += [t.t >= -1, t.t <= 1]
    return tau, cons


def harness(d, tree_type, truncated, rows=2):
    def fn(ctx):
        Havoc.reset()
        FakeBivariate.LOG = []
        FakeBivariate.N = 0
        tau, cons = sym_tau(d)
        ctx.assume(*cons)
        with warnings.catch_warnings():
            warnings.simplefilter('ignore')
            v = VineCopula(tree_type)
        v.n_var = d
        v.n_sample = rows
        v.tau_mat = tau
        v.u_matrix = np.linspace(0.1, 0.9, rows * d).reshape(rows, d)
        v.truncated = truncated
        v.depth = d - 1
        v.trees = []
        kt = stubs.KendallStub('kt')
        p1, p2 = vine_patches(kt)
        with p1, p2:
            v.train_vine(tree_type)
        return {'vine': v, 'tau0': tau}
    return fn


# ---------------------------------------------------------------- structural predicates (concrete)

def varset(e):
    return frozenset({e.L, e.R} | set(e.D))


def structure_errors(v, d, tree_type, truncated):
    errs = []
    trees = v.trees
    want = max(1, min(d - 1, truncated))
    if len(trees) != want:
        errs.append(f'{len(trees)} trees, expected {want}')
        return errs
    pairs = set()
    for k, t in enumerate(trees, start=1):
        edges = t.edges
        if len(edges) != d - k:
            errs.append(f'tree {k}: {len(edges)} edges, expected {d - k}')
            continue
        n_nodes = d - k + 1
        # node ids
        if k == 1:
            und = [(e.L, e.R) for e in edges]
            for e in edges:
                if not (0 <= e.L < d and 0 <= e.R < d and e.L != e.R):
                    errs.append(f'tree 1: bad edge ({e.L},{e.R})')
        else:
            prev = trees[k - 2].edges
            und = []
            for e in edges:
                if not e.parents or len(e.parents) != 2:
                    errs.append(f'tree {k}: edge without two parents')
                    continue
                try:
                    a, b = [next(i for i, pe in enumerate(prev) if pe is par) for par in e.parents]
                except StopIteration:
                    errs.append(f'tree {k}: parent is not an edge of tree {k - 1}')
                    continue
                und.append((a, b))
                pa, pb = prev[a], prev[b]
                # proximity: the parents share a node of tree k-1
                if k == 2:
                    share = {pa.L, pa.R} & {pb.L, pb.R}
                    prox = len(share) >= 1
                else:
                    prox = any(x is y for x in (pa.parents or []) for y in (pb.parents or []))
                if not prox:
                    errs.append(f'tree {k}: edge joins two edges of tree {k - 1} that share no node (proximity)')
                A, B = varset(pa), varset(pb)
                if set(e.D) != set(A & B):
                    errs.append(f'tree {k}: conditioning set {sorted(e.D)} is not the intersection {sorted(A & B)} of its parents')
                if {e.L, e.R} != set(A ^ B):
                    errs.append(f'tree {k}: conditioned pair {(e.L, e.R)} is not the symmetric difference of its parents')
        for e in edges:
            if e.L == e.R:
                errs.append(f'tree {k}: conditioned pair not distinct')
            if len(set(e.D)) != k - 1:
                errs.append(f'tree {k}: conditioning set has {len(set(e.D))} variables, expected {k - 1}')
            key = frozenset((e.L, e.R))
            if key in pairs:
                errs.append(f'pair {sorted(key)} is conditioned twice')
            pairs.add(key)
            if not isinstance(e.name, CopulaTypes) or e.theta is None:
                errs.append(f'tree {k}: edge without family/theta')
        # spanning tree on n_nodes nodes
        if len(und) == len(edges):
            parent = list(range(n_nodes))

            def find(x):
                while parent[x] != x:
                    parent[x] = parent[parent[x]]
                    x = parent[x]
                return x
            cyc = False
            for a, b in und:
                if not (0 <= a < n_nodes and 0 <= b < n_nodes) or a == b:
                    errs.append(f'tree {k}: edge {(a, b)} outside the {n_nodes} nodes')
                    cyc = True
                    continue
                ra, rb = find(a), find(b)
                if ra == rb:
                    cyc = True
                parent[ra] = rb
            if cyc or len({find(x) for x in range(n_nodes)}) != 1:
                errs.append(f'tree {k}: edges {und} do not form a spanning tree on {n_nodes} nodes')
            deg = [0] * n_nodes
            for a, b in und:
                if 0 <= a < n_nodes and 0 <= b < n_nodes:
                    deg[a] += 1
                    deg[b] += 1
            if tree_type == 'center' and len(und) >= 1 and max(deg) != len(und):
                errs.append(f'tree {k}: center vine but not a star (degrees {deg})')
            if tree_type == 'direct' and len(und) >= 1 and max(deg) > 2:
                errs.append(f'tree {k}: direct vine but not a path (degrees {deg})')
    return errs


def mst_goal(v, tau0, d):
    """regular vine, first tree: maximum spanning tree of |tau| (cycle property): for every non-tree
    pair (i,j), |tau_ij| <= |tau_e| for every tree edge e on the path between i and j"""
    edges = [(e.L, e.R) for e in v.trees[0].edges]
    adj = {i: [] for i in range(d)}
    for a, b in edges:
        adj[a].append(b)
        adj[b].append(a)

    def path(a, b):
        st = [(a, [a])]
        seen = {a}
        while st:
            x, p = st.pop()
            if x == b:
                return p
            for y in adj[x]:
                if y not in seen:
                    seen.add(y)
                    st.append((y, p + [y]))
        return None
    goals = []
    A = lambda i, j: z3.If(tz(tau0[i, j]) >= 0, tz(tau0[i, j]), -tz(tau0[i, j]))  # noqa
    es = {frozenset(e) for e in edges}
    for i in range(d):
        for j in range(i + 1, d):
            if frozenset((i, j)) in es:
                continue
            p = path(i, j)
            if p is None:
                return z3.BoolVal(False)
            for a, b in zip(p, p[1:]):
                goals.append(A(i, j) <= A(a, b))
    return z3.And(*goals) if goals else z3.BoolVal(True)


def analyse(paths, d, tree_type, truncated):
    out = {'n': len(paths), 'fails': [], 'nq': 0, 'havoc_pc': 0, 'havoc_out': 0, 'structures': set(), 'unsupported': 0}
    for p in paths:
        out['nq'] += p.ctx.queries

        def model_tau():
            s = z3.Solver()
            s.add(*p.ctx.pc)
            if s.check() != z3.sat:
                return None
            m = s.model()
            return {f't{i}{j}': model_value(m, z3.Real(f't{i}{j}')) for i in range(d) for j in range(i + 1, d)}
        if p.status == 'unsupported':
            out['unsupported'] += 1
            out['fails'].append({'what': f'unsupported: {p.exc}', 'tau': None, 'kind': 'unsupported'})
            continue
        if p.status == 'exc':
            out['fails'].append({'what': f'train_vine raises {type(p.exc).__name__}: {str(p.exc)[:120]}', 'tau': model_tau(), 'kind': 'exception'})
            continue
        v = p.value['vine']
        errs = structure_errors(v, d, tree_type, truncated)
        out['structures'].add(str([[(e.L, e.R, tuple(sorted(e.D))) for e in t.edges] for t in v.trees]))
        for e in errs[:3]:
            out['fails'].append({'what': e, 'tau': model_tau(), 'kind': 'structure'})
        if tree_type == 'regular' and not errs:
            s = z3.Solver()
            s.set('timeout', 30000)
            s.add(*p.ctx.pc)
            s.add(z3.Not(mst_goal(v, p.value['tau0'], d)))
            out['nq'] += 1
            r = s.check()
            if r != z3.unsat:
                mt = None
                if r == z3.sat:
                    m = s.model()
                    mt = {f't{i}{j}': model_value(m, z3.Real(f't{i}{j}')) for i in range(d) for j in range(i + 1, d)}
                out['fails'].append({'what': f'first tree is not a maximum spanning tree of |tau| ({r})', 'tau': mt, 'kind': 'mst'})
        # uninitialised memory: decisions or stored edge taus that mention a havoc symbol
        if any(uses_havoc(c) for c in p.ctx.pc):
            out['havoc_pc'] += 1
        for t in v.trees:
            for e in t.edges:
                if isinstance(e.tau, SymReal) and uses_havoc(e.tau.t):
                    out['havoc_out'] += 1
    out['structures'] = len(out['structures'])
    out['fails'] = out['fails'][:10]
    return out


def run_case(a):
    d, tree_type, truncated, tlimit = a
    t0 = time.time()
    try:
        from symx.par import par_explore
        outs, ex, total, dt = par_explore(harness(d, tree_type, truncated), lambda ps: analyse(ps, d, tree_type, truncated),
                                          nprocs=16, frontier=64, tlimit=tlimit, max_paths=4000000, chunk=200)
        agg = {'d': d, 'type': tree_type, 't': truncated, 'paths': total, 'exhaustive': ex, 'fails': [], 'nq': 0, 'havoc_pc': 0,
               'havoc_out': 0, 'structures': 0, 'unsupported': 0, 'secs': time.time() - t0}
        for o in outs:
            agg['fails'] = (agg['fails'] + o['fails'])[:10]
            for k in ('nq', 'havoc_pc', 'havoc_out', 'unsupported'):
                agg[k] += o[k]
            agg['structures'] += o['structures']
        return agg
    except BaseException:
        import traceback
        return {'d': d, 'type': tree_type, 't': truncated, 'error': traceback.format_exc()[-1500:], 'paths': 0, 'secs': 0}


# ---------------------------------------------------------------- concrete replay

def data_for_tau(tau, d, n=400, seed=0):
    """a table whose pairwise Kendall taus have (approximately) the order type of the model:
    Gaussian copula with correlation sin(pi/2 tau) projected to PSD"""
    rs = np.random.RandomState(seed)
    R = np.eye(d)
    for i in range(d):
        for j in range(i + 1, d):
            R[i, j] = R[j, i] = np.sin(np.pi / 2 * max(-0.95, min(0.95, tau.get(f't{i}{j}', 0.0))))
    w, V = np.linalg.eigh(R)
    R = V @ np.diag(np.clip(w, 1e-3, None)) @ V.T
    D = np.sqrt(np.diag(R))
    R = R / D[:, None] / D[None, :]
    import pandas as pd
    return pd.DataFrame(rs.multivariate_normal(np.zeros(d), R, size=n), columns=[f'v{i}' for i in range(d)])


class FitTimeout(BaseException):
    pass


class fit_alarm:
    """abort a concrete fit that does not return (a construction loop that makes no progress)"""

    def __init__(self, secs):
        self.secs = secs

    def __enter__(self):
        import signal
        import threading
        self.on = threading.current_thread() is threading.main_thread()
        if self.on:
            def h(sig, frm):
                raise FitTimeout()
            self.old = signal.signal(signal.SIGALRM, h)
            signal.setitimer(signal.ITIMER_REAL, self.secs)
        return self

    def __exit__(self, *a):
        import signal
        if self.on:
            signal.setitimer(signal.ITIMER_REAL, 0)
            signal.signal(signal.SIGALRM, self.old)
        return False


def tie_tables():
    """crossed designs: exact-zero Kendall taus between whole groups of columns (ties in the tau ordering)"""
    import itertools
    import pandas as pd
    a = np.array(list(itertools.product(range(4), range(5))), dtype=float)
    t3 = pd.DataFrame({'v0': a[:, 0], 'v1': a[:, 1], 'v2': a[:, 0] + 0.01 * a[:, 1]})
    b = np.array(list(itertools.product(range(3), range(3), range(3))), dtype=float)
    t4 = pd.DataFrame({'v0': b[:, 0], 'v1': b[:, 1], 'v2': b[:, 2], 'v3': b[:, 0] + 0.01 * b[:, 2]})
    return [t3, t4]


def check_table(X, d, tree_type, truncated):
    """fit the real VineCopula on X (under an alarm) and check the regular-vine structure; returns an error text or None"""
    v = VineCopula(tree_type)
    try:
        with fit_alarm(90):
            v.fit(X, truncated=truncated)
    except FitTimeout:
        return f'VineCopula({tree_type!r}).fit on {d} columns (truncated={truncated}) does not return within 90 s'
    except Exception as e:
        return f'VineCopula({tree_type!r}).fit on {d} columns (truncated={truncated}) raises {type(e).__name__}: {e}'
    errs = structure_errors(v, d, tree_type, truncated)
    if not errs and tree_type == 'regular':
        T = np.abs(X.corr(method='kendall').to_numpy())
        w = sum(T[e.L, e.R] for e in v.trees[0].edges)
        es = sorted(((T[i, j], i, j) for i in range(d) for j in range(i + 1, d)), reverse=True)
        comp = list(range(d))

        def fnd(x):
            while comp[x] != x:
                x = comp[x]
            return x
        best = 0.0
        for wt, i, j in es:          # Kruskal
            ri, rj = fnd(i), fnd(j)
            if ri != rj:
                comp[ri] = rj
                best += wt
        if w < best - 1e-9:
            errs = [f'first tree weight {w} < maximum spanning tree weight {best}']
    if errs:
        return f'VineCopula({tree_type!r}) d={d} truncated={truncated}: {errs[0]}'
    return None


def concrete_wide(tree_type, n_tables=24):
    """beyond the symbolic bound: random dependence patterns with 5 and 6 columns, all trees; crossed designs with exact-zero taus"""
    warnings.simplefilter('ignore')
    rs = np.random.RandomState(20)
    for k in range(n_tables):
        d = 5 if k % 2 == 0 else 6
        tm = {f't{i}{j}': rs.uniform(-0.85, 0.85) for i in range(d) for j in range(i + 1, d)}
        X = data_for_tau(tm, d, n=120, seed=20 + k)
        err = check_table(X, d, tree_type, d - 1)
        if err:
            return True, err + f' [random table #{k}]', {'wide': k}
    for X in tie_tables():
        for tr in (1, 2):
            err = check_table(X, X.shape[1], tree_type, tr)
            if err:
                return True, err + f' [crossed design with exact-zero Kendall taus, {X.shape[1]} columns]', {'wide': 'ties'}
    return False, '', None


def concrete_violation(d, tree_type, truncated, tau=None, seeds=(0, 1, 2)):
    import pandas as pd
    warnings.simplefilter('ignore')
    taus = [tau] if tau else []
    rs = np.random.RandomState(4)
    for _ in range(3):
        taus.append({f't{i}{j}': rs.uniform(-0.8, 0.8) for i in range(d) for j in range(i + 1, d)})
    for tm in taus:
        for sd in seeds[:2]:
            X = data_for_tau(tm, d, seed=sd)
            err = check_table(X, d, tree_type, truncated)
            if err:
                return True, err, {'tau': tm, 'seed': sd}
    return False, '', None


def replay(dt):
    if dt.get('wide'):
        bad, detail, _ = concrete_wide(dt['type'])
        print(detail)
        return bad
    bad, detail, _ = concrete_violation(dt['d'], dt['type'], dt['t'], dt.get('tau'), seeds=(dt.get('seed', 0), 1))
    print(detail)
    return bad


def run(tier, seed):
    ck = Check('C16', tier, seed, 'model_checking',
               'exhaustive path enumeration of the real vine construction on a symbolic tau matrix (every order type incl. ties), '
               'stubbed pair-copula selection; graph predicates on every path, z3 for feasibility and the spanning-tree optimality')
    ck.encode(VineCopula.train_vine, TR.Tree.fit, TR.Tree._check_constraint, TR.Tree._get_constraints, TR.Tree._sort_tau_by_y,
              TR.Tree.get_tau_matrix, TR.Tree.prepare_next_tree, TR.CenterTree._build_first_tree, TR.CenterTree._build_kth_tree,
              TR.CenterTree.get_anchor, TR.DirectTree._build_first_tree, TR.DirectTree._build_kth_tree,
              TR.RegularTree._build_first_tree, TR.RegularTree._build_kth_tree, TR.Edge._identify_eds_ing, TR.Edge.is_adjacent,
              TR.Edge.sort_edge, TR.Edge.get_conditional_uni, TR.Edge.get_child_edge)
    ck.stubs = ['Bivariate.select_copula: returns a family with an admissible theta', 'pair-copula h-functions: constant 0.5',
                'scipy.stats.kendalltau (deeper levels): fresh tau in [-1,1]', 'np.empty: havoc symbols']
    if tier == 'quick':
        cases = [(d, t, tr) for d in (2, 3, 4) for t in ('center', 'direct', 'regular') for tr in sorted({1, 2, d - 1, d})]
        tl = 240
    else:
        cases = [(d, t, tr) for d in (2, 3, 4) for t in ('center', 'direct', 'regular') for tr in range(1, d + 1)]
        cases += [(5, t, tr) for t in ('center', 'direct') for tr in (1, 2, 3, 4)] + [(6, 'center', 5), (6, 'direct', 5)]
        tl = 2400
    cases = [c for c in cases if c[2] >= 1]
    ck.bounds = {'columns d': sorted({c[0] for c in cases}), 'vine types': ['center', 'direct', 'regular'],
                 'truncation': 'see samples', 'tau': 'any symmetric matrix with entries in [-1,1], ties allowed'}
    ck.outside = ['that the first-level tau matrix is the Kendall tau of the data (pandas corr(method="kendall"))',
                  'regular vines with d >= 5 (the first tree alone has more than 2.5e5 order types of the 10 pairwise |tau|: measured, not exhaustible), '
                  'regular and direct vines with d = 7, center vines with d = 7']
    ck.assumptions = ['stub contracts above']
    findings_havoc = []
    t_start = time.time()
    budget = 900 if tier == 'quick' else 3 * 3600
    for c in cases:
        if time.time() - t_start > budget:
            ck.inconcl(f'{c}: not explored, the time budget of the symbolic tier ({budget} s) is used up')
            continue
        r = run_case((c[0], c[1], c[2], tl))
        if r.get('error'):
            ck.inconcl(f'{c}: harness error {r["error"]}')
            continue
        ck.paths += r['paths']
        ck.states += r['paths']
        ck.transitions += r['structures']
        ck.queries += r['nq']
        ck.solver_s += r['secs']
        name = f"{r['type']} d={r['d']} truncated={r['t']}: {r['paths']} paths, {r['structures']} structures"
        ck.sample({'case': name, 'havoc_in_decisions': r['havoc_pc'], 'havoc_in_edge_tau': r['havoc_out']})
        if not r['exhaustive']:
            ck.inconcl(name + ': exploration not exhaustive')
        ck.ob(name, 'unsat' if not r['fails'] else 'sat', r['secs'], queries=0, paths=r['paths'])
        seen = set()
        for fl in r['fails']:
            k = fl['kind'] + ':' + fl['what'][:40]
            if k in seen:
                continue
            seen.add(k)
            bad, detail, info = concrete_violation(r['d'], r['type'], r['t'], fl.get('tau'))
            if bad:
                ck.violation(f"{r['type']}:{fl['kind']}", f"{name}: {fl['what']} -- {detail}",
                             {'d': r['d'], 'type': r['type'], 't': r['t'], 'tau': info['tau'], 'seed': info['seed']})
            else:
                ck.inconcl(f"{name}: {fl['what']}; not reproduced on the real code")
        if r['havoc_pc'] or r['havoc_out']:
            findings_havoc.append((name, r['havoc_pc'], r['havoc_out']))
    if findings_havoc:
        ck.notes.append('uninitialised-memory reads (reported under C19): ' + '; '.join(f'{n}: {a} paths decide on havoc, {b} edge taus are havoc' for n, a, b in findings_havoc[:6]))
    # conformance: the real fit on concrete tables
    n = 0
    for d in (2, 3, 4, 5):
        for t in ('center', 'direct', 'regular'):
            n += 1
            bad, detail, info = concrete_violation(d, t, 3)
            if bad:
                ck.violation(f'{t}:conformance', detail, {'d': d, 'type': t, 't': 3, 'tau': info['tau'], 'seed': info['seed']})
    for t in ('center', 'direct', 'regular'):
        n += 26
        bad, detail, info = concrete_wide(t)
        if bad:
            ck.violation(f'{t}:conformance', detail, {'type': t, 'wide': True})
    ck.traces_validated = n
    return ck.finish()
