"""C06 - Clayton, Frank and Gumbel CDFs are genuine Archimedean copulas."""
from . import copsuite as S

OUTSIDE = ['float64 rounding near the boundary; Frank overflow for huge |theta|',
           '2-increasingness is derived (FTC) from density>=0 plus the C07 derivative identities',
           'ordering in theta (larger theta gives pointwise larger C): needs monotonicity in a parameter that sits in an exponent; the '
           'sound exp/log axiom instances do not decide it (spurious models) - dropped from the claim']


def run(tier, seed):
    obs = dict(S.C06_OBS)
    return S.drive('C06', tier, seed, obs, ['cumulative_distribution'], OUTSIDE)


replay = S.replay
