"""C06 - Clayton, Frank and Gumbel CDFs are genuine Archimedean copulas."""
from . import copsuite as S

OUTSIDE = ['float64 rounding near the boundary; Frank overflow for huge |theta|',
           '2-increasingness is derived (FTC) from density>=0 plus the C07 derivative identities',
           'theta ordering is attempted only in the thorough tier']


def run(tier, seed):
    obs = dict(S.C06_OBS)
    if tier == 'thorough':
        obs.update(S.C06_THOROUGH)
    return S.drive('C06', tier, seed, obs, ['cumulative_distribution'], OUTSIDE)


replay = S.replay
