"""C05 - marginal model choice: best-KS candidate, filters, per-column config, fallback."""
import itertools
import os
import subprocess
import sys
import time
import warnings

import numpy as np
import pandas as pd
import z3

import copulas.multivariate.gaussian as G
import copulas.univariate.base as UB
import copulas.univariate.selection as SEL
from copulas.multivariate.gaussian import GaussianMultivariate
from copulas.univariate import GaussianUnivariate, Univariate
from copulas.univariate.base import BoundedType, ParametricType
from copulas.univariate.selection import select_univariate

from symx.core import Ctx, SymReal, explore, model_value, objarr, sym, symarr, tz
from symx.report import Check, ROOT
from symx.shim import NPShim, patched
from . import gm
from .copsuite import pool_map


def make_candidates(m, raising):
    """m stub candidate classes; candidate k raises in fit() iff k in raising"""
    classes = []
    for k in range(m):
        def fit(self, X, k=k):
            type(self).FITTED_ON.append(np.asarray(X, dtype=object).copy())
            if k in raising:
                raise [ValueError, RuntimeError, ZeroDivisionError, KeyError][k % 4](f'candidate {k} cannot be fitted')
            self.fitted = True

        def cdf(self, X):
            return np.asarray(X, dtype=object)
        cls = type(f'Cand{k}', (), {'fit': fit, 'cdf': cdf, 'fitted': False, 'K': k, 'FITTED_ON': []})
        classes.append(cls)
    return classes


def selection_case(m, raising, kind='class', nans=()):
    """the real select_univariate on stub candidates with symbolic KS statistics; candidates in `nans`
    have a NaN statistic (a cdf that is NaN on the data): they are not a minimum of anything"""
    raising = set(raising)
    nans = set(nans) - raising

    def fn(ctx):
        cands = make_candidates(m, raising)
        ks = [sym(f'ks{k}') for k in range(m)]
        for v in ks:
            ctx.assume(v.t >= 0, v.t <= 1)

        def kstest(X, cdf, *a, **k):
            inst = cdf.__self__
            ctx.log.append(('kstest', type(inst).K, inst.fitted))
            if type(inst).K in nans:
                return float('nan'), float('nan')
            return ks[type(inst).K], 0.5
        X = symarr('x', 3)
        protos = [c() if kind == 'instance' else c for c in cands]
        with patched(SEL, kstest=kstest, np=NPShim(havoc_empty=False)):
            r = select_univariate(X, protos)
        return r, cands, ks, protos
    paths, ex, _ = explore(fn, max_paths=5000, tlimit=120)
    bad = []
    models = []
    fit_ids = [k for k in range(m) if k not in raising]
    ok_ids = [k for k in fit_ids if k not in nans]

    def pc_model(p):
        s_ = z3.Solver()
        s_.add(*p.ctx.pc)
        if s_.check() == z3.sat:
            models.append([model_value(s_.model(), z3.Real(f'ks{k}')) for k in range(m)])
    for p in paths:
        if p.status != 'ok':
            if not ok_ids:
                continue       # every candidate fails: outside the property's wording
            bad.append(f'raises {type(p.exc).__name__}: {str(p.exc)[:80]}')
            pc_model(p)
            continue
        r, cands, ks, protos = p.value
        if not ok_ids:
            continue
        k = getattr(type(r), 'K', None)
        if k is None or k not in ok_ids:
            bad.append(f'returned {type(r).__name__}, not a candidate that could be fitted')
            pc_model(p)
            continue
        if r.fitted or (kind == 'instance' and any(r is q for q in protos)):
            bad.append('returned object is not a fresh unfitted instance')
        s = z3.Solver()
        s.add(*p.ctx.pc)
        s.add(z3.Or(*[ks[k].t > ks[i].t for i in ok_ids]))
        if s.check() != z3.unsat:
            bad.append(f'selected candidate {k} does not have the minimal KS statistic')
            models.append([model_value(s.model(), v.t) for v in ks])
        called = [e[1] for e in p.ctx.log if e[0] == 'kstest']
        if sorted(called) != fit_ids:
            bad.append(f'KS computed for {called}, expected exactly the fittable candidates {fit_ids}')
    return {'m': m, 'raising': sorted(raising), 'kind': kind, 'nans': sorted(nans), 'paths': len(paths), 'exhaustive': ex, 'bad': bad[:3], 'models': models[:3]}


def filters_case():
    """finite enumeration: _select_candidates(p, b) == registry filter; explicit candidates win"""
    bad = []
    from abc import ABC

    def registry(cls):
        out = []
        for sc in cls.__subclasses__():
            out.extend(registry(sc))
            if ABC not in sc.__bases__:
                out.append(sc)
        return out
    reg = registry(Univariate)
    n = 0
    for p in [None] + list(ParametricType):
        for b in [None] + list(BoundedType):
            n += 1
            got = Univariate._select_candidates(p, b)
            want = [c for c in reg if (p is None or c.PARAMETRIC == p) and (b is None or c.BOUNDED == b)]
            if set(got) != set(want) or len(got) != len(set(got)):
                bad.append(f'filter ({p},{b}): {sorted(c.__name__ for c in got)} != {sorted(c.__name__ for c in want)}')
            u = Univariate(parametric=p, bounded=b)
            if want and set(u.candidates) != set(want):
                bad.append(f'Univariate(parametric={p}, bounded={b}).candidates differ from the filter')
            u2 = Univariate(candidates=[GaussianUnivariate], parametric=p, bounded=b)
            if u2.candidates != [GaussianUnivariate]:
                bad.append('explicit candidate list does not win over the filters')
    return {'n': n, 'bad': bad[:3]}


def wrapper_fit_case():
    """Univariate.fit: selects on the data, fits the selected instance on the full data, marks fitted"""
    def fn(ctx):
        cands = make_candidates(2, set())
        chosen = []

        def sel(X, candidates):
            chosen.append((np.asarray(X, dtype=object).copy(), list(candidates)))
            return cands[1]()
        X = symarr('x', 3)
        u = Univariate(candidates=cands)
        with patched(UB, select_univariate=sel, np=NPShim(havoc_empty=False)):
            u.fit(X)
        return u, chosen, cands, X
    paths, ex, _ = explore(fn)
    bad = []
    for p in paths:
        if p.status != 'ok':
            bad.append(f'{type(p.exc).__name__}: {p.exc}')
            continue
        u, chosen, cands, X = p.value
        if not (u.fitted and isinstance(u._instance, cands[1]) and u._instance.fitted):
            bad.append('wrapper not fitted with the selected instance')
        if len(chosen) != 1 or chosen[0][1] != cands or not all(tz(a).eq(tz(b)) for a, b in zip(chosen[0][0], X)):
            bad.append('selection did not see the data / the candidate list')
        if not (cands[1].FITTED_ON and all(tz(a).eq(tz(b)) for a, b in zip(cands[1].FITTED_ON[-1], X))):
            bad.append('selected instance was not fitted on the full data')
    return {'paths': len(paths), 'bad': bad[:3]}


def fallback_case(exc_kind):
    """a distribution whose fit raises => the column is a fitted GaussianUnivariate, fit returns"""
    def fn(ctx):
        gm.StubDist.COLIDX = {'c': 0, 'a': 1}
        gm.StubDist.FITS = []
        gm.StubDist.RAISE_ON = {'a'}
        gm.StubDist.RAISE_KIND = exc_kind
        X = pd.DataFrame(symarr('x', 2, 2), columns=['c', 'a'])
        fitted_on = []

        class GU(GaussianUnivariate):
            def fit(self, X_):
                fitted_on.append(np.asarray(X_, dtype=object).copy())
                self.fitted = True
        cs = gm.CorrStub()
        with gm.gm_patches(), patched(pd.DataFrame, corr=lambda self, *a, **k: cs(self, *a, **k)), patched(G, GaussianUnivariate=GU):
            m = GaussianMultivariate(distribution=gm.StubDist)
            try:
                m._fit_columns(X)
                cols, unis = m._fit_columns(X)
            finally:
                gm.StubDist.RAISE_ON = set()
        return cols, unis, fitted_on, X, GU
    paths, ex, _ = explore(fn)
    bad = []
    for p in paths:
        if p.status != 'ok':
            bad.append(f'fit does not succeed: {type(p.exc).__name__}: {p.exc}')
            continue
        cols, unis, fitted_on, X, GU = p.value
        if cols != ['c', 'a']:
            bad.append(f'columns {cols}')
        if not isinstance(unis[1], GU) or not unis[1].fitted:
            bad.append(f'failing column is modelled by {type(unis[1]).__name__}, not a fitted GaussianUnivariate')
        if not isinstance(unis[0], gm.StubDist):
            bad.append('healthy column lost its configured distribution')
        if not fitted_on or not all(tz(a).eq(tz(b)) for a, b in zip(fitted_on[-1], X['a'].to_numpy())):
            bad.append('fallback Gaussian was not fitted on the failing column')
    return {'exc': exc_kind, 'paths': len(paths), 'bad': bad[:3]}


def prototype_case(kind):
    """distribution given as an instance prototype (for all columns, or twice in a per-column dict): every column gets its
    own fresh object of the prototype's class, fitted on that column's data; the prototype itself stays unfitted"""
    def fn(ctx):
        gm.StubDist.COLIDX = {'c': 0, 'a': 1}
        gm.StubDist.FITS = []
        gm.StubDist.RAISE_ON = set()
        X = pd.DataFrame(symarr('x', 2, 2), columns=['c', 'a'])
        proto = gm.StubDist()
        cfg = proto if kind == 'instance' else {'c': proto, 'a': proto}
        cs = gm.CorrStub()
        with gm.gm_patches(), patched(pd.DataFrame, corr=lambda self, *a, **k: cs(self, *a, **k)):
            m = GaussianMultivariate(distribution=cfg)
            cols, unis = m._fit_columns(X)
        return cols, unis, proto, list(gm.StubDist.FITS), X
    paths, ex, _ = explore(fn)
    bad = []
    for p in paths:
        if p.status != 'ok':
            bad.append(f'fit does not succeed: {type(p.exc).__name__}: {p.exc}')
            continue
        cols, unis, proto, fits, X = p.value
        if cols != ['c', 'a'] or len(unis) != 2:
            bad.append(f'columns {cols}')
            continue
        if unis[0] is unis[1] or any(u is proto for u in unis):
            bad.append('the prototype object itself (or one shared object) models several columns')
        if getattr(proto, 'fitted', False) and not any(u is proto for u in unis):
            bad.append('the prototype was fitted')
        if not all(isinstance(u, gm.StubDist) for u in unis):
            bad.append(f'classes {[type(u).__name__ for u in unis]}')
    return {'kind': kind, 'paths': len(paths), 'bad': bad[:3]}


CH_SRC = '''
import sys
from typing import Dict, Optional
sys.path.insert(0, %(repo)r)
from copulas.multivariate.gaussian import GaussianMultivariate, DEFAULT_DISTRIBUTION


def column_lookup_dict(cfg: Dict[str, str], column: str) -> str:
    """
    pre: len(cfg) <= 3 and len(column) <= 3 and all(len(k) <= 3 for k in cfg)
    post: __return__ == (cfg[column] if column in cfg else "DEFAULT")
    """
    m = GaussianMultivariate(distribution=dict(cfg))
    r = m._get_distribution_for_column(column)
    return "DEFAULT" if r is DEFAULT_DISTRIBUTION else r


def column_lookup_single(name: str, column: str) -> str:
    """
    pre: len(name) <= 3 and len(column) <= 3
    post: __return__ == name
    """
    m = GaussianMultivariate(distribution=name)
    return m._get_distribution_for_column(column)
'''


def crosshair_part(timeout_s=40):
    work = os.path.join(ROOT, '.work', f'c05.{os.getpid()}')
    os.makedirs(work, exist_ok=True)
    path = os.path.join(work, 'ch_c05.py')
    open(path, 'w').write(CH_SRC % {'repo': os.environ.get('VERIF_REPO', '/repo')})
    out = {}
    try:
        procs = {}
        for fn in ('column_lookup_dict', 'column_lookup_single'):
            cmd = [sys.executable, '-m', 'crosshair', 'check', '--report_all', '--per_condition_timeout', str(timeout_s), f'ch_c05.{fn}']
            procs[fn] = subprocess.Popen(cmd, stdout=subprocess.PIPE, stderr=subprocess.STDOUT, text=True, cwd=work,
                                         env=dict(os.environ, PYTHONPATH=work + os.pathsep + ROOT))
        for fn, pr in procs.items():
            try:
                txt = pr.communicate(timeout=timeout_s * 3 + 30)[0].strip()
            except subprocess.TimeoutExpired:
                pr.kill()
                txt = 'timeout'
            st = 'confirmed' if 'Confirmed over all paths' in txt else ('counterexample' if 'error:' in txt and 'false when calling' in txt else 'inconclusive')
            out[fn] = (st, txt[-300:])
    finally:
        import shutil
        shutil.rmtree(work, ignore_errors=True)
    return out


def column_lookup_enum():
    """the same clause by finite enumeration of the four shapes of the lookup (hit / miss / non-dict)"""
    bad = []
    for cfg, col, want in (({'a': 'X', 'b': 'Y'}, 'a', 'X'), ({'a': 'X', 'b': 'Y'}, 'b', 'Y'), ({'a': 'X'}, 'zz', G.DEFAULT_DISTRIBUTION),
                           ({}, 'a', G.DEFAULT_DISTRIBUTION), ('N', 'a', 'N'), (GaussianUnivariate, 'a', GaussianUnivariate),
                           ({0: 'I', 'a': 'S'}, 0, 'I')):
        m = GaussianMultivariate(distribution=cfg)
        r = m._get_distribution_for_column(col)
        if r is not want and r != want:
            bad.append(f'{cfg!r}[{col!r}] -> {r!r}, expected {want!r}')
    return bad


def task(a):
    try:
        if a[0] == 'sel':
            return (a, selection_case(*a[1:]))
        if a[0] == 'filters':
            return (a, filters_case())
        if a[0] == 'wrapper':
            return (a, wrapper_fit_case())
        if a[0] == 'fallback':
            return (a, fallback_case(a[1]))
        if a[0] == 'prototype':
            return (a, prototype_case(a[1]))
    except BaseException:
        import traceback
        return (a, {'error': traceback.format_exc()[-1500:]})


# ---------------------------------------------------------------- concrete

def concrete_violation():
    warnings.simplefilter('ignore')
    from scipy.stats import kstest
    from copulas.univariate import BetaUnivariate, GammaUnivariate, GaussianKDE, UniformUnivariate, TruncatedGaussian
    rs = np.random.RandomState(0)
    for nm, X in (('normal', rs.normal(3, 2, 300)), ('uniform', rs.uniform(-1, 3, 300)), ('gamma', rs.gamma(2.0, 2.0, 300))):
        cands = [GaussianUnivariate, UniformUnivariate, GammaUnivariate, BetaUnivariate]
        sel = select_univariate(X, cands)
        ks = {}
        for c in cands:
            try:
                i = c()
                i.fit(X)
                ks[c] = kstest(X, i.cdf)[0]
            except Exception:
                pass
        best = min(ks.values())
        if type(sel) not in ks or ks[type(sel)] > best + 1e-12 or sel.fitted:
            return True, f'select_univariate on {nm} data returned {type(sel).__name__} (KS {ks.get(type(sel))}) but the minimum is {best}'

    proto = GaussianKDE(bw_method=0.5)
    tt = pd.DataFrame({'a': rs.normal(size=60), 'b': rs.uniform(5, 9, size=60)})
    for cfg in (proto, {'a': proto, 'b': proto}):
        mm = GaussianMultivariate(distribution=cfg)
        mm.fit(tt)
        u0, u1 = mm.univariates
        if u0 is u1 or u0 is proto or u1 is proto or proto.fitted:
            return True, 'an instance prototype is fitted in place / shared by several columns instead of being copied per column'
        if not (abs(float(u0.cdf(np.array([0.0]))[0]) - 0.5) < 0.25 and abs(float(u1.cdf(np.array([7.0]))[0]) - 0.5) < 0.25):
            return True, 'with an instance prototype the columns are not modelled on their own data'

    class Broken(GaussianUnivariate):
        def fit(self, X):
            raise RuntimeError('broken')
    t = pd.DataFrame({'a': rs.normal(size=50), 'b': rs.normal(size=50)})
    for cfg in (Broken, {'a': Broken}, {'b': Broken, 'a': GaussianKDE}):
        m = GaussianMultivariate(distribution=cfg)
        try:
            m.fit(t)
        except Exception as e:
            return True, f'fit with a failing distribution raises {type(e).__name__}: {e}'
        for c, u in zip(m.columns, m.univariates):
            d = cfg if not isinstance(cfg, dict) else cfg.get(c, Univariate)
            if d is Broken and not (type(u) is GaussianUnivariate and u.fitted):
                return True, f'column {c}: failing distribution replaced by {type(u).__name__}'
            if d is GaussianKDE and type(u) is not GaussianKDE:
                return True, f'column {c}: configured GaussianKDE but got {type(u).__name__}'
            if d is Univariate and type(u) is not Univariate:
                return True, f'column {c}: default expected, got {type(u).__name__}'
    return False, ''


def concrete_selection(ks_values, raising=(), nans=()):
    """the real select_univariate on concrete user-defined candidates whose KS distances to the data are
    (about) the given values: candidate k's cdf is the uniform cdf shifted by ks_values[k]"""
    n = 400
    X = (np.arange(n) + 0.5) / n
    classes = []
    for k, dlt in enumerate(ks_values):
        dlt = float(min(max(dlt, 0.0), 1.0))

        def fit(self, X_, k=k):
            if k in raising:
                raise RuntimeError('cannot fit')
            self.fitted = True

        def cdf(self, x, dlt=dlt, k=k):
            if k in nans:
                return np.full(np.shape(x), np.nan)
            return np.clip(np.asarray(x, dtype=float) + dlt, 0.0, 1.0)
        classes.append(type(f'Shift{k}', (), {'fit': fit, 'cdf': cdf, 'fitted': False, 'K': k}))
    try:
        r = select_univariate(X, classes)
    except Exception as e:
        return True, f'select_univariate raises {type(e).__name__}: {e} for candidate KS distances {list(ks_values)} (failing: {list(raising)})'
    fit_ok = [k for k in range(len(ks_values)) if k not in raising]
    ok = [k for k in fit_ok if k not in nans] or fit_ok
    k = getattr(type(r), 'K', None)
    if k not in ok:
        return True, (f'select_univariate returned {type(r).__name__} for candidate KS distances {list(ks_values)} '
                      f'(failing: {list(raising)}, NaN statistic: {list(nans)})')
    if ks_values[k] > min(ks_values[i] for i in ok) + 2.0 / n:
        return True, f'select_univariate chose candidate {k} (KS {ks_values[k]}) although {min(ks_values[i] for i in ok)} is available'
    return False, ''


def replay(d):
    if d.get('ks') is not None:
        bad, detail = concrete_selection(d['ks'], d.get('raising', ()), d.get('nans', ()))
        print(detail)
        return bad
    bad, detail = concrete_violation()
    print(detail)
    return bad


def run(tier, seed):
    ck = Check('C05', tier, seed, 'model_checking',
               'symbolic execution of the real select_univariate / Univariate.fit / _fit_column with stub candidates and symbolic KS '
               'statistics (z3 decides minimality on every path); finite enumeration of filters; CrossHair on the per-column lookup')
    ck.encode(select_univariate, Univariate._select_candidates, Univariate.__init__, Univariate.fit,
              GaussianMultivariate._get_distribution_for_column, GaussianMultivariate._fit_column,
              GaussianMultivariate._fit_with_fallback_distribution)
    ck.stubs = ['candidate distributions: stub classes whose fit may raise', 'scipy.stats.kstest: symbolic statistic in [0,1] per candidate, or NaN']
    mmax = 3 if tier == 'quick' else 4
    ck.bounds = {'candidates': f'<= {mmax}, every subset raising in fit', 'KS statistics': 'arbitrary reals in [0,1] (ties included); every proper non-empty subset of candidates with a NaN statistic',
                 'filters': 'all 12 (parametric, bounded) combinations', 'column names': 'strings of length <= 3 (CrossHair)'}
    ck.outside = ['that scipy.stats.kstest computes the KS distance', 'the case where every candidate fails (outside the property wording)']
    ck.assumptions = ['stub contracts']
    jobs = [('filters',), ('wrapper',)]
    for m in range(1, mmax + 1):
        for r in range(0, m + 1):
            for raising in itertools.combinations(range(m), r):
                jobs.append(('sel', m, raising, 'class'))
        jobs.append(('sel', m, (), 'instance'))
        if m >= 2:
            for k in range(1, m):
                for nn in itertools.combinations(range(m), k):
                    jobs.append(('sel', m, (), 'class', nn))
            jobs.append(('sel', m, (m - 1,), 'class', (0,)))
    for e in ('RuntimeError', 'ValueError', 'Exception'):
        jobs.append(('fallback', e))
    jobs += [('prototype', 'instance'), ('prototype', 'dict naming one instance twice')]
    viol = False
    for a, r in pool_map(task, jobs):
        if r.get('error'):
            ck.inconcl(f'{a}: harness error {r["error"]}')
            continue
        n = r.get('paths', r.get('n', 1))
        ck.paths += n
        ck.states += n
        ck.transitions += n
        ax = tuple(a) + (None, None, None, None)
        nm = {'sel': f"select_univariate: {ax[1]} candidates, {list(ax[2] or [])} failing, {list(ax[4] or [])} with a NaN statistic, prototypes as {ax[3]}: fittable minimum-KS candidate, fresh instance ({n} paths)",
              'filters': f'_select_candidates == registry filter for all {n} (parametric, bounded) combinations; explicit candidates win',
              'wrapper': 'Univariate.fit selects on the data, fits the selected instance, marks fitted',
              'fallback': f"a distribution raising {ax[1]} in fit => column modelled by a fitted GaussianUnivariate, fit succeeds",
              'prototype': f"distribution given as {ax[1]}: one fresh object of the prototype's class per column, prototype untouched"}[a[0]]
        if r.get('exhaustive') is False:
            ck.inconcl(nm + ': not exhaustive')
        ck.ob(nm, 'unsat' if not r['bad'] else 'sat', 0.0, queries=n)
        if r['bad'] and a[0] == 'sel' and r.get('models'):
            done = False
            for mdl in r['models']:
                b, detail = concrete_selection(mdl, tuple(a[2]), tuple(r.get('nans', ())))
                if b:
                    ck.violation('select_univariate', f'{nm}: {r["bad"]} -- {detail}', {'ks': mdl, 'raising': list(a[2]), 'nans': list(r.get('nans', ()))})
                    done = True
                    break
            if done:
                continue
        if r['bad'] and not viol:
            b, detail = concrete_violation()
            if b:
                ck.violation(a[0], f'{nm}: {r["bad"]} -- {detail}', {})
                viol = True
            else:
                ck.inconcl(f'{nm}: {r["bad"]}; not reproduced on the real code')
    enum_bad = column_lookup_enum()
    ck.ob('per-column lookup: dict hit -> entry, miss -> default, non-dict -> the single configuration (enumerated shapes)',
          'unsat' if not enum_bad else 'sat', 0.0)
    if enum_bad:
        ck.violation('lookup', '; '.join(enum_bad[:2]), {})
    ch = crosshair_part(25 if tier == 'quick' else 90)
    for fn, (st, txt) in ch.items():
        if st == 'confirmed':
            ck.ob(f'CrossHair {fn}: confirmed over all paths (symbolic strings)', 'unsat', 0.0)
        elif st == 'counterexample':
            ck.ob(f'CrossHair {fn}', 'sat', 0.0)
            if enum_bad:
                pass
            else:
                ck.inconcl(f'CrossHair counterexample for {fn} not reproduced by the enumerated shapes: {txt[-200:]}')
        else:
            ck.notes.append(f'CrossHair {fn}: {st}; the enumerated shapes decide the clause')
    b, detail = concrete_violation()
    ck.traces_validated = 6
    if b:
        ck.violation('conformance', detail, {})
    return ck.finish()
