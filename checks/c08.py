"""C08 - percent_point inverts the conditional CDF of every bivariate copula.
C09 shares the harness (see c09.py)."""
import time

import numpy as np
import z3

import copulas.bivariate.base as B
import copulas.bivariate.clayton as MC
import copulas.bivariate.frank as MF
import copulas.bivariate.gumbel as MG
import copulas.bivariate.independence as MI
from copulas.bivariate import Clayton, Frank, Gumbel
from copulas.utils import EPSILON

from symx.core import Ctx, SymReal, explore, model_value, objarr, sym, tz
from symx.report import Check
from symx.shim import NPShim, patched_many
from symx.trans import prove, prove_identity
from . import stubs
from .cop import FAMILIES, mk
from .copsuite import Frame, T, TH, hy, pool_map, real_model, GRID_THETAS


def patches(brentq=None, random=None):
    sh = NPShim(havoc_empty=True, force_obj=True, random=random)
    specs = [(B, dict(np=sh, brentq=brentq or stubs.BrentqStub())), (MC, dict(np=sh)), (MF, dict(np=sh)),
             (MG, dict(np=sh)), (MI, dict(np=sh))]
    return patched_many(*specs)


def ppf_paths(fam, ys, vs, extra=()):
    cls, dom = FAMILIES[fam]

    def fn(ctx):
        ctx.assume(*dom(TH.t))
        ctx.assume(*extra)
        ctx.notes['n_assume'] = len(ctx.pc)
        c = mk(cls, TH)
        r = c.percent_point(objarr(ys), objarr(vs))
        return {'r': list(np.asarray(r, dtype=object).flat), 'log': list(ctx.log), 'raw': r}
    with patches():
        return explore(fn, max_paths=256)


def closed_form(fam):
    """Clayton: percent_point is a closed form; h(ppf(y,v), v) = y, range, monotone in y."""
    res = []
    y, v, y2 = z3.Real('y'), z3.Real('v'), z3.Real('y2')
    dom = [y > 0, y < 1, v > 0, v < 1, y2 > 0, y2 < 1]
    paths, ex, _ = ppf_paths(fam, [SymReal(y)], [SymReal(v)], dom)
    if not paths or any(p.status != 'ok' for p in paths):
        return [('trace ' + str([(p.status, repr(p.exc)) for p in paths])[:200], 'error', None, 0.0)]

    def merged(ps):
        t = None
        for p in reversed(ps):
            n0 = p.ctx.notes.get('n_assume', 0)
            c = z3.And(*p.ctx.pc[n0:]) if len(p.ctx.pc) > n0 else z3.BoolVal(True)
            t = tz(p.value['r'][0]) if t is None else z3.If(c, tz(p.value['r'][0]), t)
        return t
    u = merged(paths)
    paths2, _, _ = ppf_paths(fam, [SymReal(y2)], [SymReal(v)], dom)
    u2 = merged(paths2)
    hyps = dom + FAMILIES[fam][1](TH.t)
    # range first (it is a hypothesis of the trace of h at the symbolic point u)
    r = prove(hyps, z3.And(u > 0, u <= 1), timeout_ms=60000)
    res.append(('0<ppf<=1', r['status'], r.get('model'), r['secs']))
    F = Frame('uv')
    from .cop import single
    h, _ = single(fam, 'partial_derivative', SymReal(u), SymReal(v), dom + [u > 0, u <= 1])
    # lemma chain (cut rule, every step a solver query):
    #   L1: v^-th + u^-th - 1 == y^(-th/(1+th)) / v^th      L2 (given L1): h(u, v) == y
    from symx.core import EXP, LOG, POW
    th = TH.t
    la, lb, c = th / (-1 - th) * LOG(y), th * LOG(v), (-1 - th) / th
    L1 = POW(v, -th) + POW(u, -th) - 1 == POW(y, th / (-1 - th)) / POW(v, th)
    r = prove(hyps, L1, timeout_ms=60000)
    secs = r['secs']
    if r['status'] == 'unsat':
        r = prove(hyps + [L1], tz(h) == y, hints=[EXP(la - lb), EXP(c * (la - lb))], timeout_ms=60000)
        secs += r['secs']
    if r['status'] != 'unsat':
        r2 = prove(hyps, tz(h) == y, hints=[EXP(la - lb), EXP(c * (la - lb))], timeout_ms=120000)
        secs += r2['secs']
        if r2['status'] in ('unsat', 'sat'):
            r = r2
    res.append(('h(ppf(y,v),v)=y', r['status'], r.get('model'), secs))
    r = prove(hyps + [y < y2], u <= u2, timeout_ms=60000)
    res.append(('ppf non-decreasing in y', r['status'], r.get('model'), r['secs']))
    # lane independence: 2-lane batch, lane 0 equals the single-lane term
    ya, va = z3.Real('ya'), z3.Real('va')
    pb, _, _ = ppf_paths(fam, [SymReal(y), SymReal(ya)], [SymReal(v), SymReal(va)], dom + [ya > 0, ya < 1, va > 0, va < 1])
    ok = all(p.status == 'ok' and z3.is_true(z3.simplify(tz(p.value['r'][0]) == u)) for p in pb) and len(pb) >= 1
    if not ok:
        # semantic comparison
        ok = True
        for p in pb:
            if p.status != 'ok':
                ok = False
                continue
            s = z3.Solver()
            s.add(*p.ctx.pc)
            s.add(tz(p.value['r'][0]) != u)
            if s.check() != z3.unsat:
                ok = False
    res.append(('lane 0 of a 2-lane batch = single lane', 'unsat' if ok else 'sat', None, 0.0))
    return res


def lower_end_chain(fam, fa, th, y, v, tiny):
    """f(tiny) <= 0 on the widened bracket, for theta in the |tau| <= 0.8 range and y, v in [1e-4, 1-1e-4]:
    a lemma chain (cut rule; every step is a solver query over the Ackermann encoding with numeric enclosures of
    exp at constants); the last step is about the traced term `fa` itself.  Returns (status, seconds, steps)."""
    from symx.core import EXP, LOG, POW, RV
    T = RV(tiny)
    B = [v >= RV(1e-4), v <= RV(1 - 1e-4), y >= RV(1e-4), y <= 1]
    steps = []
    secs = 0.0

    def step(hyps, goal, hints=()):
        nonlocal secs
        r = prove(hyps, goal, hints=hints, timeout_ms=60000, encodings=('ack',))
        secs += r['secs']
        steps.append(r['status'])
        return r['status'] == 'unsat'
    if fam == 'gumbel':
        H = B + [th > 1, th <= 5]
        A = RV(float(-np.log(tiny)))
        b = -LOG(v)
        PA, Pb = POW(A, th), POW(b, th)
        S = PA + Pb
        Q, R_, B1 = POW(S, 1 / th), POW(S, -1 + 1 / th), POW(b, th - 1)
        L0 = z3.And(b >= RV(9e-5), b <= RV(9.22))
        L2 = z3.And(PA >= A, Pb > 0)
        L3 = Q >= A
        L4 = z3.And(EXP(-Q) <= RV(1e-307), EXP(-Q) > 0)
        L5 = z3.And(R_ <= 1, R_ > 0)
        L6 = z3.And(B1 <= 7500, B1 > 0)
        ok = (step(H, L0, [EXP(RV(-9.22))]) and step(H + [L0], L2) and step(H + [L0, L2], L3) and step(H + [L3], L4, [EXP(-A)])
              and step(H + [L0, L2], L5) and step(H + [L0], L6, [EXP(RV(2.23)), EXP(RV(8.92))]))
        final = H + [L4, L5, L6]
    else:
        g = lambda z: EXP(-th * z) - 1  # noqa
        gU, gV, g1 = g(T), g(v), EXP(-th) - 1
        num, den = gU * gV + gU, gU * gV + g1
        if fam == 'frank+':
            H = B + [th > 0, th <= RV(18.2)]
            F1 = z3.And(gU >= -th * T, gU < 0, gV > -1, gV < 0)
            F3 = g1 <= -th / (1 + th)
            F4 = z3.And(den < 0, num >= RV(1e-4) * den)
            ok = step(H, F1) and step(H, F3, [EXP(th), EXP(RV(0))]) and step(H + [F1, F3], F4)
        else:
            H = B + [th < 0, th >= RV(-18.2)]
            a = -th
            G1 = z3.And(gU > 0, gU <= 2 * a * T)
            G2 = z3.And(gV >= 0, gV + 1 <= RV(8.1e7), g1 >= a)
            F4 = z3.And(den > 0, num <= RV(1e-4) * den)
            ok = step(H, G1, [EXP(th * T), EXP(RV(0))]) and step(H, G2, [EXP(RV(18.2))]) and step(H + [G1, G2], F4)
        final = H + [F4]
    if not ok:
        return 'unknown', secs, steps
    if not step(final, fa <= 0):
        return 'unknown', secs, steps
    # vacuity guard: the accumulated hypotheses must be satisfiable
    r = prove(final, z3.BoolVal(False), timeout_ms=20000, encodings=('ack',))
    if r['status'] == 'unsat':
        return 'error', secs, steps + ['vacuous']
    return 'unsat', secs, steps


def brentq_contract(fam, lanes=2):
    """Frank/Gumbel: the function handed to brentq for lane i is u -> h(u, v_i) - y_i, the bracket is
    [EPSILON, 1], f(1) = 1 - y_i >= 0, one scalar root per lane in lane order."""
    res = []
    ys = [SymReal(z3.Real(f'y{i}')) for i in range(lanes)]
    vs = [SymReal(z3.Real(f'v{i}')) for i in range(lanes)]
    dom = []
    for a in ys + vs:
        dom += [a.t > 0, a.t < 1]
    br = stubs.BrentqStub()
    cls, domth = FAMILIES[fam]

    def fn(ctx):
        ctx.assume(*domth(TH.t))
        ctx.assume(*dom)
        c = mk(cls, TH)
        r = c.percent_point(objarr(ys), objarr(vs))
        return {'r': list(np.asarray(r, dtype=object).flat), 'log': list(ctx.log), 'raw': r}
    with patches(brentq=br):
        paths, ex, _ = explore(fn, max_paths=512)
    hyps = dom + domth(TH.t)
    oks = [p for p in paths if p.status == 'ok']
    excs = [p for p in paths if p.status != 'ok']
    TINY = float(np.finfo(float).tiny)
    seen_tiny = set()
    for p in excs:
        if isinstance(p.exc, ValueError) and 'different signs' in str(p.exc):
            # feasible only if the bracket has no sign change: decided per bracket below
            calls = [e for e in p.ctx.log if e[0] == 'brentq']
            a = float(calls[-1][2]) if calls else None
            if a == float(EPSILON):
                # reached after the code's own test f(EPSILON) < 0: needs f(1) < 0, refuted by the f(1) >= 0 obligation
                _, f, a_, b_, fa, fb, probe, ft = calls[-1]
                from symx.core import check_valid
                st, _m, secs = check_valid(list(p.ctx.pc[:-1]), tz(fa) < 0, timeout_ms=20000)
                if st == 'unsat':
                    r = prove(hyps, tz(fb) >= 0, timeout_ms=30000)
                    st, secs = r['status'], secs + r['secs']
                res.append(('bracket [EPSILON,1] is only used with a sign change (f(EPSILON) < 0 tested by the code, f(1) >= 0)', st, None, secs))
            elif a == TINY and ('tiny', len(calls)) not in seen_tiny:
                seen_tiny.add(('tiny', len(calls)))
                i = len(calls) - 1
                st, secs, steps = lower_end_chain(fam, tz(calls[-1][4]), TH.t, ys[i].t, vs[i].t, TINY)
                res.append((f'lane {i}: widened bracket [tiny,1] has a sign change for every theta with |tau| <= 0.8 and y, v in [1e-4, 1-1e-4] '
                            f'(lemma chain, {len(steps)} steps)', st, None, secs))
            elif a not in (float(EPSILON), TINY):
                res.append((f'brentq bracket starts at {a!r}', 'sat', None, 0.0))
            continue
        res.append((f'percent_point raises {type(p.exc).__name__}: {str(p.exc)[:80]}', 'sat', None, 0.0))
    if not oks:
        res.append(('no path returns', 'sat', None, 0.0))
        return res
    from .cop import single
    weak = sorted({e[1] for p in paths for e in p.ctx.log if e[0] == 'brentq-weakened'})
    res.append(('brentq is called with scipy\'s default tolerances, iteration budget and convergence check'
                + (f' (found: {weak})' if weak else ''), 'sat' if weak else 'unsat', None, 0.0))
    seen_br = set()
    for p in oks:
        calls = [e for e in p.value['log'] if e[0] == 'brentq']
        if len(calls) != lanes or len(p.value['r']) != lanes:
            res.append(('one brentq call and one result per lane', 'sat', None, 0.0))
            continue
        for i, (_, f, a, b, fa, fb, probe, ft) in enumerate(calls):
            lo = float(a)
            okb = lo in (float(EPSILON), TINY) and float(b) == 1.0
            res.append((f'lane {i}: bracket is [EPSILON, 1] or, when f(EPSILON) >= 0, [tiny, 1]', 'unsat' if okb else 'sat', None, 0.0))
            key = (i, lo)
            if key in seen_br:
                continue
            seen_br.add(key)
            s_ = probe.t
            h, _ = single(fam, 'partial_derivative', SymReal(s_), vs[i], hyps + [s_ > 0, s_ <= 1])
            same = z3.simplify(tz(ft) == tz(h) - ys[i].t)
            if z3.is_true(same):
                st = 'unsat'
            else:
                r = prove(hyps + [s_ > 0, s_ <= 1], tz(ft) == tz(h) - ys[i].t, timeout_ms=30000)
                st = r['status']
            res.append((f'lane {i} (lower end {lo:.3g}): brentq solves h(u, v_{i}) - y_{i} = 0', st, None, 0.0))
            # upper end sign: f(1) = 1 - y_i >= 0
            r = prove(hyps, tz(fb) >= 0, timeout_ms=30000)
            res.append((f'lane {i} (lower end {lo:.3g}): f(1) >= 0', r['status'], r.get('model'), r['secs']))
            root = p.value['r'][i]
            okr = isinstance(root, SymReal) and root.t.decl().name() == f'root{i + 1}'  # stub numbers its calls per path
            res.append((f'lane {i} (lower end {lo:.3g}): result is the root of that lane', 'unsat' if okr else 'sat', None, 0.0))
    return res


def shortcut(fam):
    """Gumbel theta == 1: percent_point(y, v) = y (inverse of h(u,v) = u)."""
    y, v = z3.Real('y'), z3.Real('v')
    paths, ex, _ = ppf_paths(fam, [SymReal(y)], [SymReal(v)], [y > 0, y < 1, v > 0, v < 1])
    ok = len(paths) == 1 and paths[0].status == 'ok' and z3.is_true(z3.simplify(tz(paths[0].value['r'][0]) == y))
    return [('theta==1: ppf(y,v)=y', 'unsat' if ok else 'sat', None, 0.0)]


def indep():
    """Independence: percent_point(y, v) = y, partial_derivative(u, v) = u (= dC/dv of C = u v), no parameter."""
    from copulas.bivariate.independence import Independence
    res = []
    y, v, ya, va = z3.Real('y'), z3.Real('v'), z3.Real('ya'), z3.Real('va')
    dom = [y > 0, y < 1, v > 0, v < 1, ya > 0, ya < 1, va > 0, va < 1]

    def fn(ctx):
        ctx.assume(*dom)
        c = Independence()
        c.fit(np.array([[0.1, 0.2], [0.4, 0.3]]))      # fit() is a no-op for this family
        r = c.percent_point(objarr([SymReal(y), SymReal(ya)]), objarr([SymReal(v), SymReal(va)]))
        r = list(np.asarray(r, dtype=object).flat)
        h = c.partial_derivative(objarr([[r[0], SymReal(v)], [r[1], SymReal(va)]]))
        cd = c.cumulative_distribution(objarr([[SymReal(y), SymReal(v)]]))
        return {'r': r, 'h': list(np.asarray(h, dtype=object).flat), 'cdf': list(np.asarray(cd, dtype=object).flat)}
    with patches():
        paths, ex, _ = explore(fn, max_paths=16)
    if len(paths) != 1 or paths[0].status != 'ok':
        return [('percent_point/partial_derivative return on a fitted Independence copula: ' +
                 str([(p.status, repr(p.exc)) for p in paths])[:160], 'sat', None, 0.0)]
    val = paths[0].value
    from symx.core import check_valid
    from symx.diff import diff
    goals = [('0<=ppf<=1', z3.And(tz(val['r'][0]) >= 0, tz(val['r'][0]) <= 1)),
             ('h(ppf(y,v),v)=y', z3.And(tz(val['h'][0]) == y, tz(val['h'][1]) == ya)),
             ('lane i depends only on (y_i, v_i)', z3.And(tz(val['r'][0]) == y, tz(val['r'][1]) == ya)),
             ('partial_derivative = dC/dv', tz(val['h'][0]) == z3.substitute(diff(tz(val['cdf'][0]), v), (y, tz(val['r'][0]))))]
    for nm, g in goals:
        st, m, secs = check_valid(dom, g, timeout_ms=20000)
        res.append((nm, st, None, secs))
    res.append(('ppf non-decreasing in y', 'unsat' if z3.is_true(z3.simplify(tz(val['r'][0]) == y)) else 'sat', None, 0.0))
    return res


def concrete_indep():
    from copulas.bivariate.independence import Independence
    c = Independence()
    c.fit(np.array([[0.1, 0.2], [0.4, 0.3]]))
    ys, vs = np.array([0.3, 1e-4, 1 - 1e-4, 0.5]), np.array([0.6, 0.2, 1e-4, 1 - 1e-4])
    try:
        u = np.asarray(c.percent_point(ys, vs), dtype=float)
        hv = np.asarray(c.partial_derivative(np.column_stack((u, vs))), dtype=float)
    except Exception as e:
        return True, f'Independence: percent_point/partial_derivative raises {type(e).__name__}: {e}'
    if u.shape != ys.shape or np.any(u < 0) or np.any(u > 1) or not np.allclose(hv, ys, atol=1e-9):
        return True, f'Independence: y={ys.tolist()} v={vs.tolist()}: u={u.tolist()} h(u,v)={hv.tolist()}'
    try:
        smp = np.asarray(c.sample(6), dtype=float)
        if smp.shape != (6, 2) or np.any(smp < 0) or np.any(smp > 1):
            return True, f'Independence.sample(6): {smp.tolist()}'
    except Exception as e:
        return True, f'Independence.sample raises {type(e).__name__}: {e}'
    return False, ''


def task(a):
    kind, fam = a
    t0 = time.time()
    try:
        if kind == 'closed':
            r = closed_form(fam)
        elif kind == 'brentq':
            r = brentq_contract(fam)
        elif kind == 'indep':
            r = indep()
        else:
            r = shortcut(fam)
        return (kind, fam, r, time.time() - t0)
    except BaseException:
        import traceback
        return ('error', fam, traceback.format_exc()[-1500:], 0.0)


# ---------------------------------------------------------------- concrete side

def concrete_ppf_violation(fam, theta, y, v):
    """real code: u = ppf(y, v) must be in [0,1] with h(u, v) = y"""
    c = real_model(fam, theta)
    try:
        with np.errstate(all='ignore'):
            u = np.asarray(c.percent_point(np.array([y]), np.array([v])), dtype=float)[0]
            hv = float(c.partial_derivative(np.array([[u, v]]))[0])
    except Exception as e:
        return True, f'percent_point raises {type(e).__name__}: {e}'
    bad = not (0 <= u <= 1) or abs(hv - y) > 1e-5
    return bad, f'u={u} h(u,v)={hv} y={y}'


def replay(d):
    if d.get('fam') == 'independence':
        bad, detail = concrete_indep()
        print(detail)
        return bad
    if d.get('vector'):
        bad, detail = concrete_vector_violation(d['fam'], d['theta'], d['y'], d['v'])
    else:
        bad, detail = concrete_ppf_violation(d['fam'], d['theta'], d['y'], d['v'])
    print(detail)
    return bad


CORNERS = [(1e-4, 1e-4), (1e-4, 1 - 1e-4), (1 - 1e-4, 1e-4), (1 - 1e-4, 1 - 1e-4), (0.2, 1 - 1e-4), (1 - 1e-4, 0.995), (0.5, 1e-4),
           (1e-4, 0.1), (0.5, 1e-3)]
SMALL = {'clayton': [1e-3, 5e-3, 0.05], 'gumbel': [1.001, 1.02], 'frank+': [1e-3, 0.02], 'frank-': [-1e-3, -0.02], 'gumbel1': []}
VECTORS = [([5e-4, .3, .7], [.2, .5, .8]), ([.3, 1 - 5e-4, .7], [.5, .2, .8]), ([.3, .7], [.5, .8]), ([.7, 2e-4], [.8, .05]),
           ([1e-4, 1 - 1e-4, .5, .25], [.9, .1, .5, .35])]


def concrete_vector_violation(fam, theta, ys, vs):
    """real code on a vector: every lane i must satisfy h(u_i, v_i) = y_i (element-wise clause)"""
    c = real_model(fam, theta)
    try:
        with np.errstate(all='ignore'):
            u = np.asarray(c.percent_point(np.array(ys), np.array(vs)), dtype=float)
            hv = np.asarray(c.partial_derivative(np.column_stack((u, np.array(vs)))), dtype=float)
    except Exception as e:
        return True, f'percent_point raises {type(e).__name__}: {e}'
    if u.shape != (len(ys),) or np.any(u < 0) or np.any(u > 1) or not np.allclose(hv, ys, atol=1e-5):
        return True, f'y={ys} v={vs}: u={u} h(u,v)={hv}'
    return False, ''


def find_replay(fam, model=None):
    if fam == 'independence':
        bad, detail = concrete_indep()
        return {'fam': fam, 'theta': None, 'y': None, 'v': None, 'detail': detail} if bad else None
    cands = []
    thetas = []
    if model and 'theta' in model:
        thetas.append(model['theta'])
        cands.append((model['theta'], model.get('y', model.get('y0', 0.5)), model.get('v', model.get('v0', 0.5))))
    thetas += GRID_THETAS[fam] + SMALL.get(fam, [])
    for th in thetas:
        for (y, v) in [(0.3, 0.6), (0.9, 0.2), (0.05, 0.5), (0.5, 0.97), (0.5, 0.02), (1e-4, 0.3), (1 - 1e-4, 0.6)] + CORNERS:
            cands.append((th, y, v))
    for (th, y, v) in cands:
        if not (0 < y < 1 and 0 < v < 1):
            continue
        bad, detail = concrete_ppf_violation(fam, th, y, v)
        if bad:
            return {'fam': fam, 'theta': th, 'y': y, 'v': v, 'detail': detail}
    for th in thetas:
        for ys, vs in VECTORS:
            bad, detail = concrete_vector_violation(fam, th, ys, vs)
            if bad:
                return {'fam': fam, 'theta': th, 'y': ys, 'v': vs, 'detail': detail, 'vector': True}
    return None


def run(tier, seed):
    ck = Check('C08', tier, seed, 'proof',
               'symbolic execution of the real percent_point (Clayton closed form; Frank/Gumbel with brentq as a contract stub) '
               '+ z3 on the traced terms')
    ck.encode(Clayton.percent_point, B.Bivariate.percent_point, B.Bivariate.partial_derivative_scalar,
              Frank.percent_point, Gumbel.percent_point, Clayton.partial_derivative, Frank.partial_derivative, Gumbel.partial_derivative,
              MI.Independence.percent_point, MI.Independence.partial_derivative)
    ck.stubs = ['scipy.optimize.brentq(f,a,b,...): f must return a scalar; needs a sign change; returns x in [a,b] with f(x)=0 when called with '
                'the default xtol/rtol/maxiter and disp=True; a call that loosens them only gets x in [a,b] and is reported']
    ck.bounds = {'theta': 'Clayton theta>0, Gumbel theta>=1, Frank theta!=0 (reals)', 'y,v': 'open unit interval (reals)', 'lanes': 2}
    ck.outside = ['convergence/tolerance of brentq (scipy)',
                  'sign change on the widened bracket for y or v outside [1e-4, 1-1e-4] or |tau| > 0.8 (the bound is quantitative)',
                  'float64 rounding']
    ck.assumptions = ['brentq contract', 'exact real arithmetic', 'exp/log axioms are sound instances']
    jobs = [('closed', 'clayton'), ('brentq', 'frank+'), ('brentq', 'frank-'), ('brentq', 'gumbel'), ('shortcut', 'gumbel1'),
            ('indep', 'independence')]
    for kind, fam, r, secs in pool_map(task, jobs):
        if kind == 'error':
            ck.inconcl(f'harness error for {fam}: {r}')
            continue
        for (name, st, model, s_) in r:
            nm = f'{fam}: {name}'
            if st == 'unsat':
                ck.ob(nm, 'unsat', s_)
                continue
            rep = find_replay(fam, model)
            ck.ob(nm, st, s_)
            if rep is not None:
                ck.violation(f'{fam}:{name.split(":")[0][:50]}', f'{nm} -- {rep["detail"]} at theta={rep["theta"]} y={rep["y"]} v={rep["v"]}', rep)
            else:
                ck.inconcl(f'{nm}: solver said {st}, no replay reproduces')
    # conformance witnesses: the real code on a few points (surfaces exceptions in the unstubbed path)
    n = 0
    for fam in ('clayton', 'frank+', 'frank-', 'gumbel', 'gumbel1', 'independence'):
        rep = find_replay(fam, None)
        n += (len(GRID_THETAS.get(fam, [0])) + len(SMALL.get(fam, []))) * (7 + len(CORNERS) + len(VECTORS))
        if rep is not None:
            ck.violation(f'{fam}:conformance', f'{fam}: real percent_point fails the definition: {rep["detail"]}', rep)
    ck.traces_validated = n
    return ck.finish()
