"""Obligation suites over the real Clayton / Frank / Gumbel code (C06, C07).

Every obligation is a universally quantified statement over theta in the family's range and
(u, v) in the open unit square (or a boundary pattern), decided by z3 on the term traced from
the repository's own methods.  Two complete parametrisations of the open square are used:
frame 'uv' (u, v symbolic in (0,1)) and frame 'xy' (u = exp(-x), v = exp(-y), x, y > 0).
"""
import math
import multiprocessing as mp
import os
import time

import numpy as np
import z3

from symx.core import EXP, LOG, POW, SymReal, sym, tz
from symx.diff import diff
from symx.trans import eval_term, prove, prove_identity

from . import cop
from .cop import FAMILIES, single, trace

TH = sym('theta')


class Frame:
    def __init__(self, kind, suffix=''):
        self.kind = kind
        if kind == 'uv':
            self.u, self.v = z3.Real('u' + suffix), z3.Real('v' + suffix)
            self.U, self.V = SymReal(self.u), SymReal(self.v)
            self.hyps = [self.u > 0, self.u < 1, self.v > 0, self.v < 1]
            self.facts = []
        else:
            self.x, self.y = z3.Real('x' + suffix), z3.Real('y' + suffix)
            self.U, self.V = SymReal(EXP(-self.x)), SymReal(EXP(-self.y))
            self.hyps = [self.x > 0, self.y > 0]
            self.facts = [self.U.t > 0, self.U.t < 1, self.V.t > 0, self.V.t < 1]

    def d_du(self, t):
        if self.kind == 'uv':
            return diff(t, self.u)
        return diff(t, self.x) / diff(self.U.t, self.x)

    def d_dv(self, t):
        if self.kind == 'uv':
            return diff(t, self.v)
        return diff(t, self.y) / diff(self.V.t, self.y)

    def point(self, model):
        if self.kind == 'uv':
            return model.get('u', 0.5), model.get('v', 0.5)
        return math.exp(-model.get('x', 0.7)), math.exp(-model.get('y', 0.7))


def T(fam, method, F, a=None, b=None, extra=()):
    a = F.U if a is None else a
    b = F.V if b is None else b
    t, ctx = single(fam, method, a, b, F.hyps + F.facts + list(extra))
    return tz(t)


def hy(fam, F, extra=()):
    return F.hyps + FAMILIES[fam][1](TH.t) + list(extra)


# ------------------------------------------------------------------ obligations
# each returns a list of attempts; an attempt is ('ident', hyps, lhs, rhs) or
# ('ineq', hyps, goal, hints).  The obligation is discharged when any attempt is unsat.

def ob_boundary_u1(fam, F):
    C = T(fam, 'cumulative_distribution', F, b=1.0)
    return [('ident', hy(fam, F), C, F.U.t)]


def ob_boundary_1v(fam, F):
    C = T(fam, 'cumulative_distribution', F, a=1.0)
    return [('ident', hy(fam, F), C, F.V.t)]


def ob_upper_u(fam, F):
    C = T(fam, 'cumulative_distribution', F)
    return [('ineq', hy(fam, F), C <= F.U.t, [])]


def ob_upper_v(fam, F):
    C = T(fam, 'cumulative_distribution', F)
    return [('ineq', hy(fam, F), C <= F.V.t, [])]


def ob_lower_0(fam, F):
    C = T(fam, 'cumulative_distribution', F)
    return [('ineq', hy(fam, F), C >= 0, [])]


def ob_frechet_lower(fam, F):
    C = T(fam, 'cumulative_distribution', F)
    u, v = F.U.t, F.V.t
    if fam.startswith('frank'):
        return [('ineq', hy(fam, F), C >= u + v - 1, [EXP(-TH.t * (u + v - 1))])]
    # positive-quadrant-dependent families: C >= u*v >= u+v-1
    if F.kind == 'uv':
        lu, lv = LOG(u), LOG(v)
    else:
        lu, lv = -F.x, -F.y
    hints = [EXP(lu + lv), EXP(-TH.t * (lu + lv))]
    at = [('ineq', hy(fam, F), C >= u * v, hints)]
    if fam == 'gumbel' and F.kind == 'xy':
        # lemma chain (cut rule; every step is a solver query):
        #   x^th + y^th <= (x+y)^th ; hence S^(1/th) <= x+y ; hence C >= exp(-x-y) = u*v >= u+v-1
        x, y, th = F.x, F.y, TH.t
        lx, ly, lxy = LOG(x), LOG(y), LOG(x + y)
        S = POW(x, th) + POW(y, th)
        at = [('chain', hy(fam, F), [
            (S <= POW(x + y, th), [EXP(th * (lx - lxy)), EXP(th * (ly - lxy)), EXP(lx - lxy), EXP(ly - lxy)]),
            (POW(S, 1 / th) <= x + y, []),
            (C >= u * v, [EXP(-x - y)]),
            (C >= u + v - 1, []),
        ])] + at
    elif fam == 'gumbel':
        return []
    else:
        at.append(('ineq', hy(fam, F) + [C >= u * v], C >= u + v - 1, []))
        at = [('chain', hy(fam, F), [(C >= u * v, hints), (C >= u + v - 1, [])])]
    return at


def ob_symmetric(fam, F):
    C = T(fam, 'cumulative_distribution', F)
    Cs = T(fam, 'cumulative_distribution', F, a=F.V, b=F.U)
    return [('ident', hy(fam, F), C, Cs)]


def ob_generator_identity(fam, F):
    C = T(fam, 'cumulative_distribution', F)
    gC = T(fam, 'generator', F, a=SymReal(C), b=None, extra=[C > 0, C < 1])
    gu = T(fam, 'generator', F, a=F.U, b=None)
    gv = T(fam, 'generator', F, a=F.V, b=None)
    at = [('ident', hy(fam, F), gC, gu + gv)]
    if fam.startswith('frank'):
        at = [('ident', hy(fam, F), EXP(-gC), EXP(-(gu + gv)))] + at
    return at


def ob_generator_one(fam, F):
    paths, ex = trace(fam, 'generator', [(1.0, None)], F.hyps)
    ok = [p for p in paths if p.status == 'ok']
    if len(ok) != 1:
        raise RuntimeError('generator(1): paths ' + str([(p.status, repr(p.exc)) for p in paths]))
    g1 = ok[0].value[0]
    if isinstance(g1, (float, int)):
        return [('const', g1 == 0)]
    return [('ident', hy(fam, F), tz(g1), z3.RealVal(0))]


def ob_generator_decreasing(fam, F):
    s, t = z3.Real('s'), z3.Real('t')
    ex = [s > 0, s < 1, t > 0, t < 1, s < t]
    gs = T(fam, 'generator', F, a=SymReal(s), b=None, extra=ex)
    gt = T(fam, 'generator', F, a=SymReal(t), b=None, extra=ex)
    return [('ineq', FAMILIES[fam][1](TH.t) + ex, gs > gt, [])]


def ob_pdf_nonneg(fam, F):
    p = T(fam, 'probability_density', F)
    return [('ineq', hy(fam, F), p >= 0, [])]


def ob_pdf_symmetric(fam, F):
    p = T(fam, 'probability_density', F)
    ps = T(fam, 'probability_density', F, a=F.V, b=F.U)
    return [('ident', hy(fam, F), p, ps)]


def ob_h_is_dCdv(fam, F):
    C = T(fam, 'cumulative_distribution', F)
    h = T(fam, 'partial_derivative', F)
    return [('ident', hy(fam, F), h, F.d_dv(C))]


def ob_pdf_is_dhdu(fam, F):
    h = T(fam, 'partial_derivative', F)
    p = T(fam, 'probability_density', F)
    return [('ident', hy(fam, F), p, F.d_du(h))]


def ob_h_range(fam, F):
    h = T(fam, 'partial_derivative', F)
    hints = []
    if fam == 'gumbel' and F.kind == 'uv':
        return []
    return [('ineq', hy(fam, F), z3.And(h >= 0, h <= 1), hints)]


def ob_h_at_1(fam, F):
    h = T(fam, 'partial_derivative', F, a=1.0)
    return [('ident', hy(fam, F), h, z3.RealVal(1))]


def ob_h_at_0_frank(fam, F):
    if not fam.startswith('frank'):
        return None
    h = T(fam, 'partial_derivative', F, a=0.0)
    return [('ident', hy(fam, F), h, z3.RealVal(0))]


def ob_logpdf(fam, F):
    p = T(fam, 'probability_density', F)
    lp = T(fam, 'log_probability_density', F)
    return [('ident', hy(fam, F) + [p > 0], EXP(lp), p)]


def ob_theta_order(fam, F):
    """theta1 < theta2  =>  C_theta1 <= C_theta2 (pointwise)"""
    cls, dom = FAMILIES[fam]
    t1, t2 = z3.Real('theta1'), z3.Real('theta2')
    base = F.hyps + F.facts
    paths1, _ = trace(fam, 'cumulative_distribution', [(F.U, F.V)], base, theta=SymReal(t1))
    paths2, _ = trace(fam, 'cumulative_distribution', [(F.U, F.V)], base, theta=SymReal(t2))
    a = tz(paths1[0].value[0])
    b = tz(paths2[0].value[0])
    hyps = F.hyps + dom(t1) + dom(t2) + [t1 < t2]
    return [('ineq', hyps, a <= b, [])]


C06_OBS = {
    'C(u,1)=u': ob_boundary_u1,
    'C(1,v)=v': ob_boundary_1v,
    'C<=u': ob_upper_u,
    'C<=v': ob_upper_v,
    'C>=0': ob_lower_0,
    'C>=max(u+v-1,0)': ob_frechet_lower,
    'C(u,v)=C(v,u)': ob_symmetric,
    'gen(C)=gen(u)+gen(v)': ob_generator_identity,
    'gen(1)=0': ob_generator_one,
    'gen strictly decreasing': ob_generator_decreasing,
    'density>=0 (2-increasing via C07 identities)': ob_pdf_nonneg,
}
C06_THOROUGH = {
    'theta ordering': ob_theta_order,
}
C07_OBS = {
    'h=dC/dv': ob_h_is_dCdv,
    'pdf=dh/du': ob_pdf_is_dhdu,
    'pdf>=0': ob_pdf_nonneg,
    'pdf(u,v)=pdf(v,u)': ob_pdf_symmetric,
    '0<=h<=1': ob_h_range,
    'h(1,v)=1': ob_h_at_1,
    'h(0,v)=0 [Frank]': ob_h_at_0_frank,
    'logpdf=log(pdf)': ob_logpdf,
}
ALL_OBS = {}
ALL_OBS.update(C06_OBS)
ALL_OBS.update(C06_THOROUGH)
ALL_OBS.update(C07_OBS)

# theta==1 Gumbel path: skip obligations that need theta>1 strictly or a generator with theta symbolic
SKIP = {
    ('gumbel1', 'theta ordering'),
}


def _attempt(at, timeout_ms, seed):
    kind = at[0]
    if kind == 'const':
        return {'status': 'unsat' if at[1] else 'sat', 'secs': 0.0, 'model': {}, 'encoding': 'const'}
    if kind == 'chain':
        _, hyps, steps = at
        lem = []
        tot = 0.0
        r = None
        for (g, hn) in steps:
            r = prove(hyps + lem, g, hints=hn, timeout_ms=timeout_ms, seed=seed)
            tot += r['secs']
            if r['status'] != 'unsat' or not r.get('defined_ok', True):
                break
            lem.append(g)
        r = dict(r)
        r['secs'] = tot
        return r
    if kind == 'ident':
        _, hyps, lhs, rhs = at
        r = prove_identity(hyps, lhs, rhs, timeout_ms=timeout_ms, seed=seed)
        if r['status'] != 'unsat':
            r2 = prove(hyps, lhs == rhs, timeout_ms=min(timeout_ms, 20000), seed=seed)
            if r2['status'] in ('unsat', 'sat', 'sat?') or r['status'] == 'unknown':
                r = r2
        return r
    _, hyps, goal, hints = at
    return prove(hyps, goal, hints=hints, timeout_ms=timeout_ms, seed=seed)


def run_ob(args):
    """worker: decide one obligation for one family.  Returns a plain dict."""
    fam, name, timeout_ms, seed = args
    t0 = time.time()
    tried = []
    best_sat = None
    err = None
    for fk in ('uv', 'xy'):
        F = Frame(fk)
        try:
            attempts = ALL_OBS[name](fam, F)
            if attempts == []:
                continue
        except Exception as e:  # tracing failed (e.g. the real code raised)
            err = f'{type(e).__name__}: {e}'
            tried.append((fk, 'trace-error', err[:200]))
            continue
        if attempts is None:
            return {'fam': fam, 'name': name, 'status': 'n/a', 'secs': 0.0, 'tried': []}
        for at in attempts:
            kind = at[0]
            try:
                r = _attempt(at, timeout_ms, seed)
            except Exception as e:
                r = {'status': 'unknown', 'secs': 0.0, 'model': None, 'encoding': f'error {type(e).__name__}: {str(e)[:120]}'}
            tried.append((fk, kind, r['status'], round(r['secs'], 2), r.get('encoding')))
            if r['status'] == 'unsat' and r.get('defined_ok', True):
                return {'fam': fam, 'name': name, 'status': 'unsat', 'secs': time.time() - t0, 'frame': fk,
                        'encoding': r.get('encoding'), 'tried': tried}
            if r['status'] in ('sat', 'sat?') and best_sat is None and r.get('model') is not None:
                m = dict(r['model'])
                u, v = F.point(m)
                m['u'], m['v'] = u, v
                best_sat = m
            continue
    st = 'sat' if best_sat is not None else ('error' if err and not any(t[1] != 'trace-error' for t in tried) else 'unknown')
    return {'fam': fam, 'name': name, 'status': st, 'secs': time.time() - t0, 'model': best_sat, 'tried': tried,
            'error': err}


# ------------------------------------------------------------------ concrete predicates (replay)

def real_model(fam, theta):
    cls = FAMILIES[fam][0]
    c = cls()
    c.theta = float(theta)
    c.tau = 0.5
    return c


def _fd(f, x, h=1e-6):
    return (f(x + h) - f(x - h)) / (2 * h)


def concrete_violates(fam, name, theta, u, v, extra=None):
    """Evaluate the property clause `name` on the real, unshimmed code at one point.
    Returns (violated: bool, detail)."""
    extra = extra or {}
    c = real_model(fam, theta)
    X = np.array([[u, v]])
    cdf = lambda a, b: float(c.cumulative_distribution(np.array([[a, b]]))[0])  # noqa
    pdf = lambda a, b: float(c.probability_density(np.array([[a, b]]))[0])  # noqa
    hfn = lambda a, b: float(c.partial_derivative(np.array([[a, b]]))[0])  # noqa
    gen = lambda t: float(np.asarray(c.generator(np.array([t])))[0])  # noqa
    tol = 1e-7

    def rel(a, b):
        return abs(a - b) > tol * max(1.0, abs(a), abs(b))
    with np.errstate(all='ignore'):
        if name == 'C(u,1)=u':
            return rel(cdf(u, 1.0), u), (cdf(u, 1.0), u)
        if name == 'C(1,v)=v':
            return rel(cdf(1.0, v), v), (cdf(1.0, v), v)
        if name == 'C<=u':
            return cdf(u, v) > u + tol, cdf(u, v)
        if name == 'C<=v':
            return cdf(u, v) > v + tol, cdf(u, v)
        if name == 'C>=0':
            return cdf(u, v) < -tol, cdf(u, v)
        if name == 'C>=max(u+v-1,0)':
            return cdf(u, v) < max(u + v - 1, 0) - tol, cdf(u, v)
        if name == 'C(u,v)=C(v,u)':
            return rel(cdf(u, v), cdf(v, u)), (cdf(u, v), cdf(v, u))
        if name == 'gen(C)=gen(u)+gen(v)':
            return rel(gen(cdf(u, v)), gen(u) + gen(v)), (gen(cdf(u, v)), gen(u) + gen(v))
        if name == 'gen(1)=0':
            return abs(gen(1.0)) > tol, gen(1.0)
        if name == 'gen strictly decreasing':
            s, t = extra.get('s', 0.3), extra.get('t', 0.6)
            return not (gen(s) > gen(t)), (gen(s), gen(t))
        if name in ('density>=0 (2-increasing via C07 identities)', 'pdf>=0'):
            return pdf(u, v) < -tol, pdf(u, v)
        if name == 'pdf(u,v)=pdf(v,u)':
            return rel(pdf(u, v), pdf(v, u)), (pdf(u, v), pdf(v, u))
        if name == 'h=dC/dv':
            fd = _fd(lambda b: cdf(u, b), v, 1e-6)
            a = hfn(u, v)
            return abs(a - fd) > 1e-4 * max(1.0, abs(a)), (a, fd)
        if name == 'pdf=dh/du':
            fd = _fd(lambda a_: hfn(a_, v), u, 1e-6)
            a = pdf(u, v)
            return abs(a - fd) > 1e-4 * max(1.0, abs(a)), (a, fd)
        if name == '0<=h<=1':
            a = hfn(u, v)
            return (a < -tol or a > 1 + tol), a
        if name == 'h(1,v)=1':
            return rel(hfn(1.0, v), 1.0), hfn(1.0, v)
        if name == 'h(0,v)=0 [Frank]':
            return abs(hfn(0.0, v)) > tol, hfn(0.0, v)
        if name == 'logpdf=log(pdf)':
            lp = float(c.log_probability_density(X)[0])
            return rel(lp, math.log(pdf(u, v))), (lp, math.log(pdf(u, v)))
        if name == 'theta ordering':
            t1, t2 = extra.get('theta1'), extra.get('theta2')
            c1, c2 = real_model(fam, t1), real_model(fam, t2)
            a = float(c1.cumulative_distribution(X)[0])
            b = float(c2.cumulative_distribution(X)[0])
            return a > b + tol, (a, b)
    raise KeyError(name)


GRID_THETAS = {
    'clayton': [0.3, 1.0, 2.5, 8.0],
    'gumbel': [1.2, 2.0, 3.5, 5.0],
    'gumbel1': [1.0],
    'frank+': [0.5, 3.0, 9.0, 18.2],
    'frank-': [-0.5, -3.0, -9.0, -18.2],
}
EDGE_THETAS = {'clayton': [9e-6, 2e-6, 3e-4], 'gumbel': [1.0005]}
GRID_PTS = [(0.2, 0.7), (0.5, 0.5), (0.9, 0.15), (0.03, 0.4), (0.6, 0.97), (0.99, 0.99), (0.01, 0.01), (0.99, 0.01),
            (1e-4, 1e-4), (1 - 1e-4, 1 - 1e-4), (1e-9, 0.5), (0.5, 1e-9)]
CONF_PTS = [(0.2, 0.7), (0.5, 0.5), (0.9, 0.15), (0.03, 0.4), (0.6, 0.97), (0.95, 0.95), (0.99, 0.99), (0.01, 0.01), (0.99, 0.01)]
EXTREME_ROWS = [(1e-4, 1e-4), (1e-9, 0.5), (0.5, 1e-9), (1 - 1e-9, 0.5), (1e-12, 1e-12), (1 - 1e-4, 1 - 1e-4)]


def try_replay(fam, name, model):
    """Replay the solver's candidate on the real code.  The abstraction of exp/log can make the
    model spurious in its (u, v, theta) coordinates; the model's point is tried first, then the
    model's theta with the fixed witness points, then the fixed theta grid (all of them are
    replays of the *same violated clause* on the real code; none is reported unless it fails)."""
    cands = []
    if model:
        th = model.get('theta', None)
        if th is not None:
            cands.append((th, model.get('u', 0.5), model.get('v', 0.5)))
            for (a, b) in GRID_PTS:
                cands.append((th, a, b))
    # parameters close to the independence limit (branches specialised for tiny theta); only where the pinned code
    # is itself accurate to the replay tolerance in float64
    for th in GRID_THETAS[fam]:
        for (a, b) in GRID_PTS:
            cands.append((th, a, b))
    for th in EDGE_THETAS.get(fam, []):
        for (a, b) in GRID_PTS:
            if min(a, b) >= 0.01:
                cands.append((th, a, b))
    extra = {k: model[k] for k in ('s', 't', 'theta1', 'theta2') if model and k in model}
    if name == 'theta ordering' and not extra:
        g = GRID_THETAS[fam]
        extra = {'theta1': g[0], 'theta2': g[-1]} if g[0] < g[-1] else {'theta1': g[-1], 'theta2': g[0]}
    for (th, a, b) in cands:
        try:
            if not (0 < a < 1 and 0 < b < 1) or not math.isfinite(th):
                continue
            bad, detail = concrete_violates(fam, name, th, a, b, extra)
        except Exception as e:
            return {'fam': fam, 'name': name, 'theta': th, 'u': a, 'v': b, 'extra': extra,
                    'detail': f'{type(e).__name__}: {e}', 'raises': True}
        if bad:
            return {'fam': fam, 'name': name, 'theta': th, 'u': a, 'v': b, 'extra': extra, 'detail': str(detail)}
    return None


def replay(data):
    if data.get('name') == 'rows':
        r = replay_rows(data['fam'], (data['kind'], data['meth'], data['pat'], '', ''))
        print(r)
        return r is not None
    try:
        bad, detail = concrete_violates(data['fam'], data['name'], data['theta'], data['u'], data['v'], data.get('extra'))
    except Exception as e:
        print('raises', type(e).__name__, e)
        return bool(data.get('raises'))
    print('detail', detail)
    return bool(bad)


# ------------------------------------------------------------------ translator validation

def validate_traces(families=('clayton', 'gumbel', 'frank+', 'frank-')):
    """push the repository's own numerical test vectors through the real function and the traced
    term (evaluated with real exp/log) and compare.  Returns (n_compared, mismatches)."""
    import glob
    import json
    import pandas as pd
    repo = os.environ.get('VERIF_REPO', '/repo')
    n = 0
    bad = []
    F = Frame('uv')
    cases = []
    for kind, meth in (('cdf', 'cumulative_distribution'), ('pdf', 'probability_density')):
        for f in sorted(glob.glob(f'{repo}/tests/numerical/{kind}/test_cases/*/*.json')):
            tc = json.load(open(f))
            cases.append((kind, meth, tc, f'{repo}/tests/numerical/{kind}'))
    terms = {}
    for kind, meth, tc, base in cases:
        nm = tc['test']['class'].rsplit('.', 1)[1].lower()
        theta = tc['test_case_inputs']['theta']
        fam = nm if nm != 'frank' else ('frank+' if theta > 0 else 'frank-')
        if fam not in families:
            continue
        key = (fam, meth)
        if key not in terms:
            terms[key] = T(fam, meth, F)
        inp = pd.read_csv(os.path.join(base, 'input', tc['test_case_inputs']['points'])).to_numpy()[:40]
        c = real_model(fam, theta)
        with np.errstate(all='ignore'):
            real = getattr(c, meth)(inp)
        for row, rv in zip(inp, real):
            if not (0 < row[0] < 1 and 0 < row[1] < 1):
                continue
            try:
                ev = eval_term(terms[key], {'theta': float(theta), 'u': float(row[0]), 'v': float(row[1])})
            except (OverflowError, ZeroDivisionError, ValueError):
                continue
            n += 1
            if not (abs(ev - rv) <= 1e-9 * max(1.0, abs(rv)) or (math.isnan(ev) and math.isnan(rv))):
                bad.append((fam, meth, theta, tuple(row), float(rv), ev))
    return n, bad


# ------------------------------------------------------------------ boundary + row independence

def boundary_and_rows(fam, methods, tier):
    """(a) concrete boundary patterns on every path; (b) row independence: out[0] of a 2-row
    batch equals the single-row result, for every boundary pattern of both rows."""
    from symx.core import Ctx
    res = []
    F = Frame('uv')
    F2 = Frame('uv', '2')
    dom = F.hyps + F2.hyps
    pats = [('s', 's'), ('s', 1.0), (1.0, 's'), ('s', 0.0), (0.0, 's'), (0.0, 0.0), (1.0, 1.0), (0.0, 1.0), (1.0, 0.0)]

    def mkrow(p, Fr):
        return (Fr.U if p[0] == 's' else p[0], Fr.V if p[1] == 's' else p[1])
    t0 = time.time()
    nq = 0
    for meth in methods:
        # interior methods (h, pdf) are only claimed on the open square: boundary patterns with 1.0
        pp = pats if meth == 'cumulative_distribution' else [('s', 's'), ('s', 1.0), (1.0, 's'), (1.0, 1.0)]
        singles = {}
        for p0 in pp:
            paths, ex = trace(fam, meth, [mkrow(p0, F)], dom)
            singles[p0] = (paths, ex)
            if meth == 'cumulative_distribution':
                # boundary values on every path
                for p in paths:
                    if p.status != 'ok':
                        res.append(('boundary', meth, p0, 'exception', repr(p.exc)))
                        continue
                    out = p.value[0]
                    want = None
                    if 0.0 in p0:
                        want = 0.0
                    elif p0 == (1.0, 1.0):
                        want = 1.0
                    if want is not None:
                        if isinstance(out, SymReal):
                            r = prove(p.ctx.pc, out.t == want, timeout_ms=20000)
                            nq += 1
                            ok = r['status'] == 'unsat'
                        else:
                            ok = float(out) == want
                        res.append(('boundary', meth, p0, 'ok' if ok else 'FAIL', str(out)[:80]))
        for p0 in pp:
            for p1 in pp:
                bp, ex = trace(fam, meth, [mkrow(p0, F), mkrow(p1, F2)], dom)
                sp, _ = singles[p0]
                for b in bp:
                    for s_ in sp:
                        # compatible paths: pc_b and pc_s jointly satisfiable
                        slv = z3.Solver()
                        slv.set('timeout', 10000)
                        slv.add(*b.ctx.pc)
                        slv.add(*s_.ctx.pc)
                        nq += 1
                        if slv.check() == z3.unsat:
                            continue
                        if b.status != s_.status:
                            res.append(('rows', meth, (p0, p1), 'FAIL', f'batch {b.status} vs single {s_.status}: {b.exc!r} {s_.exc!r}'))
                            continue
                        if b.status != 'ok':
                            continue
                        ob, os_ = b.value[0], s_.value[0]
                        mdl = ''
                        if isinstance(ob, SymReal) or isinstance(os_, SymReal):
                            eq = z3.simplify(tz(ob) == tz(os_))
                            if z3.is_true(eq):
                                ok = True
                            else:
                                slv.add(tz(ob) != tz(os_))
                                nq += 1
                                ok = slv.check() == z3.unsat
                                if not ok:
                                    try:
                                        from symx.core import model_value
                                        m = slv.model()
                                        mdl = repr({n: model_value(m, z3.Real(n)) for n in ('theta', 'u', 'v', 'u2', 'v2')})
                                    except Exception:
                                        mdl = ''
                        else:
                            ok = (ob == os_) or (ob != ob and os_ != os_)
                        res.append(('rows', meth, (p0, p1), 'ok' if ok else 'FAIL', mdl))
    return res, nq, time.time() - t0


def run_rows(args):
    fam, methods, tier = args
    try:
        res, nq, dt = boundary_and_rows(fam, methods, tier)
        return {'fam': fam, 'res': [(a, b, str(c), d, e) for (a, b, c, d, e) in res], 'queries': nq, 'secs': dt}
    except Exception as e:
        import traceback
        return {'fam': fam, 'error': traceback.format_exc()[-800:], 'res': [], 'queries': 0, 'secs': 0}


def pool_map(fn, items, procs=None):
    procs = procs or min(16, max(1, len(items)))
    ctx = mp.get_context('fork')
    with ctx.Pool(procs) as pool:
        return pool.map(fn, items, chunksize=1)


# ------------------------------------------------------------------ driver shared by C06 / C07

def drive(pid, tier, seed, obs, methods, outside, fams=None):
    from symx.report import Check
    from copulas.bivariate import Clayton, Frank, Gumbel
    from copulas.bivariate.base import Bivariate
    from copulas.bivariate.utils import split_matrix
    ck = Check(pid, tier, seed, 'proof', 'symbolic execution of the real copula methods on z3 reals + '
               'sound exp/log elimination; z3 decides each universally quantified obligation')
    for cls in (Clayton, Frank, Gumbel):
        for m in ('cumulative_distribution', 'probability_density', 'partial_derivative', 'generator'):
            ck.encode(getattr(cls, m))
    ck.encode(Bivariate.check_fit, Bivariate.check_theta, Bivariate.log_probability_density, split_matrix)
    ck.stubs = ['numpy exp/log/power on object arrays -> uninterpreted exp/log/pow + sound axiom instances']
    ck.bounds = {'theta': 'Clayton theta>0, Gumbel theta>=1 (theta==1 branch separately), Frank theta!=0 (both signs); '
                          'unbounded reals, superset of the property range',
                 'u,v': 'all reals in the open unit square; boundary patterns {0,1,interior}^2 enumerated',
                 'batch': 'rows <= 2 (row independence makes batch size 2 representative)',
                 'arithmetic': 'exact real arithmetic; IEEE rounding not modelled'}
    ck.outside = outside
    ck.assumptions = ['exp/log/pow are the real-analytic functions (only true axiom instances are used)',
                      'numpy object-array broadcasting/ufunc dispatch behaves as for float arrays',
                      'float64 rounding, overflow and cancellation are outside the claim']
    fams = fams or list(FAMILIES)
    tmo = 60000 if tier == 'quick' else 300000
    items = [(f, n, tmo, seed) for f in fams for n in obs if (f, n) not in SKIP]
    order = list(range(len(items)))
    if seed:
        import random
        random.Random(seed).shuffle(order)
    results = pool_map(run_ob, [items[i] for i in order])
    # translator validation
    try:
        n, bad = validate_traces()
        ck.traces_validated = n
        if bad:
            ck.inconcl(f'translator validation mismatch on {len(bad)} vectors, e.g. {bad[0]}')
    except Exception as e:
        ck.inconcl(f'translator validation failed to run: {type(e).__name__}: {e}')
    for r in results:
        if r['status'] == 'n/a':
            continue
        nm = f"{r['fam']}: {r['name']}"
        if r['status'] == 'unsat':
            ck.ob(nm, 'unsat', r['secs'], encoding=f"{r.get('frame')}/{r.get('encoding')}", queries=len(r['tried']))
            continue
        # candidate counterexample (or trace error): replay on the real code
        rep = try_replay(r['fam'], r['name'], r.get('model'))
        if rep is not None:
            ck.ob(nm, 'sat', r['secs'], queries=len(r['tried']))
            ck.violation(f"{r['fam']}:{r['name']}", f"{r['name']} fails for {r['fam']} at theta={rep['theta']:.6g} "
                         f"u={rep['u']:.6g} v={rep['v']:.6g}: {rep['detail']}", rep)
        else:
            ck.ob(nm, r['status'], r['secs'], queries=len(r['tried']))
            ck.inconcl(f"{nm}: solver said {r['status']} ({r.get('error') or r['tried']}) and no replay reproduces")
    # concrete conformance grid: the same clauses evaluated on the real float64 code (this is where
    # cancellation / rounding defects, which the real-arithmetic proof cannot see, surface)
    nconf = 0
    for fam in fams:
        for th in GRID_THETAS[fam]:
            for (u_, v_) in CONF_PTS:
                for nm_ in obs:
                    if nm_ in ('gen strictly decreasing', 'theta ordering') or (nm_.startswith('h(0,v)') and not fam.startswith('frank')):
                        continue
                    nconf += 1
                    try:
                        b_, d_ = concrete_violates(fam, nm_, th, u_, v_)
                    except Exception as e:
                        b_, d_ = True, f'raises {type(e).__name__}: {e}'
                    if b_:
                        ck.violation(f'{fam}:{nm_}:float64', f'{nm_} fails for {fam} in float64 at theta={th} u={u_} v={v_}: {d_}',
                                     {'fam': fam, 'name': nm_, 'theta': th, 'u': u_, 'v': v_, 'detail': str(d_)})
    ck.traces_validated += nconf
    # boundary values and row independence
    rows = pool_map(run_rows, [(f, methods, tier) for f in fams])
    for rr in rows:
        if rr.get('error'):
            ck.inconcl(f"rows/boundary harness error for {rr['fam']}: {rr['error']}")
            continue
        nfail = [x for x in rr['res'] if x[3] not in ('ok',)]
        ck.ob(f"{rr['fam']}: boundary values + row independence ({len(rr['res'])} path pairs)",
              'unsat' if not nfail else 'sat', rr['secs'], queries=rr['queries'], paths=len(rr['res']))
        ck.paths += len(rr['res'])
        for x in nfail[:3]:
            rep = replay_rows(rr['fam'], x)
            if rep is not None:
                ck.violation(f"{rr['fam']}:{x[0]}:{x[1]}:{x[2]}", f"{x[0]} clause fails for {rr['fam']}.{x[1]} pattern {x[2]}: {rep['detail']}", rep)
            else:
                ck.inconcl(f"{rr['fam']} {x} not reproduced concretely")
    return ck.finish()


def replay_rows(fam, x):
    """concrete replay of a boundary / row-independence failure"""
    kind, meth, pat, _, mdl = x
    mdl = eval(mdl) if isinstance(mdl, str) and mdl.startswith('{') else {}
    thetas = ([mdl['theta']] if mdl.get('theta') is not None else []) + GRID_THETAS[fam]
    alt_rows = [None] + EXTREME_ROWS
    for th in thetas:
      for alt in alt_rows:
        c = real_model(fam, th)
        try:
            with np.errstate(all='ignore'):
                if kind == 'boundary':
                    p0 = eval(pat)
                    row = [0.37 if p0[0] == 's' else p0[0], 0.61 if p0[1] == 's' else p0[1]]
                    out = float(getattr(c, meth)(np.array([row]))[0])
                    want = 0.0 if 0.0 in p0 else 1.0
                    if not (abs(out - want) <= 1e-9):        # NaN counts as a failure
                        return {'fam': fam, 'name': 'rows', 'kind': kind, 'meth': meth, 'pat': pat, 'theta': th,
                                'u': row[0], 'v': row[1], 'detail': f'{meth}({row})={out} expected {want}'}
                else:
                    p0, p1 = eval(pat)
                    r0 = [0.37 if p0[0] == 's' else p0[0], 0.61 if p0[1] == 's' else p0[1]]
                    s1 = alt if alt is not None else ((mdl.get('u2', 0.83), mdl.get('v2', 0.22)) if th == mdl.get('theta') else (0.83, 0.22))
                    if not (0 < s1[0] < 1 and 0 < s1[1] < 1):
                        s1 = (0.83, 0.22)
                    r1 = [s1[0] if p1[0] == 's' else p1[0], s1[1] if p1[1] == 's' else p1[1]]
                    a = getattr(c, meth)(np.array([r0, r1]))[0]
                    b = getattr(c, meth)(np.array([r0]))[0]
                    if not (a == b or (a != a and b != b)):
                        return {'fam': fam, 'name': 'rows', 'kind': kind, 'meth': meth, 'pat': pat, 'theta': th,
                                'u': r0[0], 'v': r0[1], 'row1': r1, 'detail': f'{meth} row0={r0} in batch with {r1}: {a} vs alone {b}'}
        except Exception as e:
            return {'fam': fam, 'name': 'rows', 'kind': kind, 'meth': meth, 'pat': pat, 'theta': th, 'u': 0, 'v': 0,
                    'detail': f'raises {type(e).__name__}: {e}', 'raises': True}
    return None
