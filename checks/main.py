import argparse
import importlib
import json
import os
import sys
import traceback


def main():
    ap = argparse.ArgumentParser()
    ap.add_argument('pid')
    ap.add_argument('--tier', default=os.environ.get('VERIF_TIER', 'quick'))
    ap.add_argument('--replay', default=None)
    a = ap.parse_args()
    seed = int(os.environ.get('VERIF_SEED', '0') or 0)
    mod = importlib.import_module(f'checks.{a.pid.lower()}')
    if a.replay:
        data = json.load(open(a.replay))
        ok = mod.replay(data)
        print('REPRODUCED' if ok else 'not reproduced')
        sys.exit(1 if ok else 0)
    try:
        rc = mod.run(a.tier, seed)
    except SystemExit:
        raise
    except BaseException:
        traceback.print_exc()
        print(f'INCONCLUSIVE property={a.pid} harness error')
        rc = 2
    sys.exit(rc)


if __name__ == '__main__':
    main()
