"""Shared tracing helpers for the bivariate copula checks (C06-C11)."""
import contextlib

import numpy as np
import z3

import copulas.bivariate.base as B
import copulas.bivariate.clayton as MC
import copulas.bivariate.frank as MF
import copulas.bivariate.gumbel as MG
import copulas.bivariate.independence as MI
from copulas.bivariate import Clayton, Frank, Gumbel

from symx.core import Ctx, SymReal, explore, objarr, sym
from symx.shim import NPShim, patched

MODS = (B, MC, MF, MG, MI)


@contextlib.contextmanager
def shimmed(**extra):
    sh = NPShim(havoc_empty=True, force_obj=True)
    with contextlib.ExitStack() as st:
        for m in MODS:
            st.enter_context(patched(m, np=sh))
        for (m, name), v in extra.items():
            st.enter_context(patched(m, **{name: v}))
        yield sh


FAMILIES = {
    'clayton': (Clayton, lambda th: [th > 0]),
    'gumbel': (Gumbel, lambda th: [th > 1]),
    'gumbel1': (Gumbel, lambda th: [th == 1]),
    'frank+': (Frank, lambda th: [th > 0]),
    'frank-': (Frank, lambda th: [th < 0]),
}


def mk(cls, theta, tau=0.5):
    c = cls()
    c.theta = theta
    c.tau = tau
    return c


def X_of(rows):
    return objarr([list(r) for r in rows])


def trace(fam, method, rows, assume=(), theta=None, max_paths=64):
    """Run the real `method` of family `fam` on a batch `rows` (list of (u, v), entries SymReal or
    floats) with symbolic theta.  Returns list of (pc, out_list, defined) per feasible path."""
    cls, dom = FAMILIES[fam]
    th = theta if theta is not None else sym('theta')

    def fn(ctx):
        ctx.assume(*dom(th.t))
        ctx.assume(*assume)
        ctx.notes['n_assume'] = len(ctx.pc)
        c = mk(cls, th)
        if method == 'generator':
            r = c.generator(objarr([r[0] for r in rows]))
        elif method == 'percent_point':
            r = c.percent_point(objarr([r[0] for r in rows]), objarr([r[1] for r in rows]))
        else:
            r = getattr(c, method)(X_of(rows))
        return list(np.asarray(r, dtype=object).flat)

    with shimmed():
        paths, exhaustive, dt = explore(fn, max_paths=max_paths)
    return paths, exhaustive


class TraceError(Exception):
    pass


def single(fam, method, u, v, assume=()):
    """the term of `method` at one symbolic point: all feasible paths merged into one
    if-then-else term over their path conditions (an exception on any path is an error)."""
    from symx.core import tz
    paths, ex = trace(fam, method, [(u, v)], assume)
    bad = [p for p in paths if p.status != 'ok']
    if bad or not paths or not ex:
        raise TraceError(f'{fam}.{method}: ' + '; '.join(f'{p.status} {p.exc!r}' for p in bad[:2]) + ('' if ex else ' (path limit)'))
    if len(paths) == 1:
        return paths[0].value[0], paths[0].ctx
    term = None
    for p in reversed(paths):
        v_ = p.value[0]
        if not isinstance(v_, SymReal):
            if isinstance(v_, float) and v_ != v_ or v_ in (float('inf'), float('-inf')):
                raise TraceError(f'{fam}.{method}: special value {v_} on a path')
        t = tz(v_)
        n0 = p.ctx.notes.get('n_assume', 0)
        cond = z3.And(*p.ctx.pc[n0:]) if len(p.ctx.pc) > n0 else z3.BoolVal(True)
        term = t if term is None else z3.If(cond, t, term)
    return SymReal(term), paths[0].ctx
