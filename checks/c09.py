"""C09 - bivariate samples: the exact transformation applied to the two uniform draws.

Decided: guard on tau, exactly two uniform(0,1,n) requests, result = column_stack(ppf(c, v), v)
lane-aligned, shape (n,2), entries in [0,1].  That the construction then has uniform margins and
the copula as joint law is the conditional-inverse (Rosenblatt) theorem given C07/C08 - trusted
mathematics; every statistical clause is outside the claim."""
import time

import numpy as np
import z3

import copulas.bivariate.base as B
import copulas.utils as U
from copulas.bivariate import Clayton, Frank, Gumbel

from symx.core import Ctx, SymReal, explore, objarr, sym, tz
from symx.report import Check
from symx.rng import RNGModel
from symx.shim import NPShim, patched
from symx.trans import prove
from . import stubs
from .c08 import patches, ppf_paths
from .cop import FAMILIES, mk
from .copsuite import TH, pool_map, real_model, GRID_THETAS


def sample_paths(fam, n, tau=None):
    cls, dom = FAMILIES[fam]

    def fn(ctx):
        rng = RNGModel()
        ctx.notes['rng'] = rng
        ctx.assume(*dom(TH.t))
        c = mk(cls, TH, tau if tau is not None else 0.5)
        c.random_state = None
        with patches(random=rng):
            r = c.sample(n)
        return {'r': r, 'req': list(rng.requests), 'log': list(ctx.log)}
    return explore(fn, max_paths=512)


def analyse(fam, n):
    res = []
    t0 = time.time()
    paths, ex, _ = sample_paths(fam, n)
    if not ex:
        res.append(('exhaustive', 'unknown', ''))
    for p in paths:
        if p.status != 'ok':
            if isinstance(p.exc, ValueError) and 'different signs' in str(p.exc):
                continue
            res.append((f'sample raises {type(p.exc).__name__}: {str(p.exc)[:80]}', 'sat', ''))
            continue
        v = p.value
        r = v['r']
        req = v['req']
        ok = isinstance(r, np.ndarray) and r.shape == (n, 2)
        res.append((f'shape is ({n},2)', 'unsat' if ok else 'sat', ''))
        if not ok:
            continue
        ok = len(req) == 2 and all(q['kind'] == 'uniform' and q['n'] == n and tuple(q['params']) == (0, 1) for q in req)
        res.append(('exactly two uniform(0,1,n) requests', 'unsat' if ok else 'sat', str([(q['kind'], q['n'], q['params']) for q in req])))
        if not ok:
            continue
        from symx.rng import D
        vd = [D(req[0]['state'], z3.IntVal(i)) for i in range(n)]
        cd = [D(req[1]['state'], z3.IntVal(i)) for i in range(n)]
        s = z3.Solver()
        s.set('timeout', 30000)
        s.add(*p.ctx.pc)
        # column 1 is the first draw
        s.push()
        s.add(z3.Or(*[tz(r[i, 1]) != vd[i] for i in range(n)]))
        res.append(('column 1 = first uniform draw v (lane-aligned)', str(s.check()), ''))
        s.pop()
        # column 0 = ppf(c_i, v_i)   (draws exactly 0 are a measure-zero corner, excluded)
        for i in range(n):
            s.add(vd[i] > 0, cd[i] > 0)
        if fam == 'gumbel1':
            s.push()
            s.add(z3.Or(*[tz(r[i, 0]) != cd[i] for i in range(n)]))
            res.append(('theta==1: column 0 = second uniform draw c (h(u,v)=u)', str(s.check()), ''))
            s.pop()
        elif fam == 'clayton':
            okc = True
            for i in range(n):
                pp, _, _ = ppf_paths(fam, [SymReal(cd[i])], [SymReal(vd[i])], [cd[i] >= 0, cd[i] < 1, vd[i] >= 0, vd[i] < 1])
                # compare on compatible paths
                for q in pp:
                    s.push()
                    s.add(*q.ctx.pc)
                    if s.check() != z3.unsat:
                        if q.status != 'ok':
                            okc = False
                        else:
                            a, b = r[i, 0], q.value['r'][0]
                            if isinstance(a, SymReal) or isinstance(b, SymReal):
                                s.add(tz(a) != tz(b))
                                if s.check() != z3.unsat:
                                    okc = False
                            elif a != b:
                                okc = False
                    s.pop()
            res.append(('column 0 = percent_point(c_i, v_i) with c the second draw', 'unsat' if okc else 'sat', ''))
        else:
            calls = [e for e in v['log'] if e[0] == 'brentq']
            okc = len(calls) == n
            for i, e in enumerate(calls if okc else []):
                _, f, a, b, fa, fb, probe, ft = e
                # at the probe point the function is h(probe, v_i) - c_i
                from .cop import single
                h, _ = single(fam, 'partial_derivative', probe, SymReal(vd[i]), [probe.t > 0, probe.t <= 1, vd[i] > 0, vd[i] < 1] + FAMILIES[fam][1](TH.t))
                s.push()
                s.add(vd[i] > 0)
                s.add(tz(ft) != tz(h) - cd[i])
                if s.check() != z3.unsat:
                    okc = False
                s.pop()
                root = r[i, 0]
                if not (isinstance(root, SymReal) and root.t.decl().name() == f'root{i + 1}'):
                    okc = False
            res.append(('column 0 = root of h(u, v_i) = c_i per lane, c the second draw', 'unsat' if okc else 'sat', ''))
        # entries in [0,1] (Clayton: for v, c in (0,1): closed form range shown in C08; brentq: root in [EPS, 1])
        rng_ok = True
        for i in range(n):
            s.push()
            s.add(vd[i] > 0, cd[i] > 0)   # measure-zero endpoints 0 excluded
            goal = z3.And(tz(r[i, 1]) >= 0, tz(r[i, 1]) <= 1)
            if fam != 'clayton':
                goal = z3.And(goal, tz(r[i, 0]) >= 0, tz(r[i, 0]) <= 1)
            s.add(z3.Not(goal))
            if s.check() != z3.unsat:
                rng_ok = False
            s.pop()
        res.append(('entries in [0,1]' + (' (column 0 of Clayton: see C08 range obligation)' if fam == 'clayton' else ''),
                    'unsat' if rng_ok else 'sat', ''))
    return {'fam': fam, 'n': n, 'res': res, 'paths': len(paths), 'secs': time.time() - t0}


def guard(fam):
    """tau outside [-1,1] => ValueError before any draw"""
    tau = sym('tau')
    paths, ex, _ = sample_paths(fam, 1, tau=tau)
    res = []
    for p in paths:
        s = z3.Solver()
        s.add(*p.ctx.pc)
        s.add(z3.Or(tau.t > 1, tau.t < -1))
        bad_tau_possible = s.check() == z3.sat
        if bad_tau_possible and not (p.status == 'exc' and isinstance(p.exc, ValueError)):
            res.append(('tau outside [-1,1] must raise ValueError', 'sat', str(p.status)))
        if p.status == 'exc' and isinstance(p.exc, ValueError) and 'correlation' in str(p.exc):
            s2 = z3.Solver()
            s2.add(*p.ctx.pc)
            s2.add(tau.t >= -1, tau.t <= 1)
            if s2.check() != z3.unsat:
                res.append(('ValueError for a tau inside [-1,1]', 'sat', ''))
    if not res:
        res.append(('guard: tau outside [-1,1] <=> ValueError', 'unsat', ''))
    return {'fam': fam, 'n': 1, 'res': res, 'paths': len(paths), 'secs': 0.0}


def task(a):
    try:
        if a[0] == 'guard':
            return guard(a[1])
        return analyse(a[1], a[2])
    except BaseException:
        import traceback
        return {'fam': a[1], 'n': 0, 'res': [('harness error ' + traceback.format_exc()[-1200:], 'error', '')], 'paths': 0, 'secs': 0}


def concrete_violation(fam, theta, n=5, seed=3):
    for n_ in ((1, n, 1200) if n == 5 else (n,)):
        bad, detail = _concrete_violation(fam, theta, n_, seed)
        if bad:
            return bad, f'n={n_}: {detail}'
    return False, ''


def _concrete_violation(fam, theta, n=5, seed=3):
    c = real_model(fam, theta)
    c.set_random_state(seed)
    try:
        with np.errstate(all='ignore'):
            r = c.sample(n)
    except Exception as e:
        return True, f'sample raises {type(e).__name__}: {e}'
    st = np.random.RandomState(seed)
    v = st.uniform(0, 1, n)
    cc = st.uniform(0, 1, n)
    if r.shape != (n, 2) or not np.all(np.isfinite(r)) or r.min() < 0 or r.max() > 1:
        return True, f'shape/range: {r}'
    if not np.allclose(r[:, 1], v):
        return True, 'column 1 is not the first uniform draw'
    h = c.partial_derivative(r)
    if not np.allclose(h, cc, atol=1e-5):
        return True, f'h(sample) != second uniform draw: {h} vs {cc}'
    return False, ''


def replay(d):
    bad, detail = concrete_violation(d['fam'], d['theta'], d.get('n', 5))
    print(detail)
    return bad


def run(tier, seed):
    ck = Check('C09', tier, seed, 'model_checking',
               'symbolic execution of the real Bivariate.sample under a symbolic RNG model; z3 decides the dataflow clauses on every path')
    ck.encode(B.Bivariate.sample, B.Bivariate.percent_point, Clayton.percent_point, U.random_state)
    ck.stubs = ['np.random: RNG model (symx/rng.py)', 'brentq contract stub (Frank/Gumbel)']
    ns_ = (1, 2) if tier == 'quick' else (1, 2, 3)
    ck.bounds = {'n_samples': list(ns_), 'theta': 'family range (reals)', 'draws': 'arbitrary reals in [0,1)'}
    ck.outside = ['uniformity of the margins, Kendall tau of the sample and joint-law agreement (statistical clauses): '
                  'they follow from the conditional-inverse construction given C07/C08 and scipy/numpy uniform draws; not decided',
                  'draws exactly equal to 0 (measure zero)']
    ck.assumptions = ['RNG model: equal states give equal draws; uniform draws lie in [0,1)', 'brentq contract']
    jobs = [('guard', 'clayton')] + [('s', f, n) for f in ('clayton', 'frank+', 'frank-', 'gumbel', 'gumbel1') for n in ns_]
    for r in pool_map(task, jobs):
        ck.paths += r['paths']
        ck.states += r['paths']
        agg = {}
        for (name, st, det) in r['res']:
            agg.setdefault(name, []).append((st, det))
        for name, lst in agg.items():
            ck.transitions += len(lst)
            bad = [x for x in lst if x[0] != 'unsat']
            nm = f"{r['fam']} n={r['n']}: {name}"
            ck.ob(nm, 'unsat' if not bad else bad[0][0], r['secs'] / max(1, len(agg)), queries=len(lst))
            if bad:
                done = False
                for th in GRID_THETAS[r['fam']]:
                    b, detail = concrete_violation(r['fam'], th)
                    if b:
                        ck.violation(f"{r['fam']}:{name[:50]}", f"{nm}: {detail} (theta={th})", {'fam': r['fam'], 'theta': th, 'n': 5})
                        done = True
                        break
                if not done:
                    ck.inconcl(f'{nm}: {bad[0]} not reproduced on the real code')
    n = 0
    for fam in ('clayton', 'frank+', 'frank-', 'gumbel'):
        for th in GRID_THETAS[fam]:
            b, detail = concrete_violation(fam, th)
            n += 1
            if b:
                ck.violation(f'{fam}:conformance', f'{fam} theta={th}: {detail}', {'fam': fam, 'theta': th, 'n': 5})
    ck.traces_validated = n
    return ck.finish()
