"""C11 - select_copula returns a calibrated candidate.

Decided: on every feasible path of the real select_copula (symbolic data, kendalltau /
least_squares / quad as contract stubs, COMPUTE_EMPIRICAL_STEPS reduced) the result is one of the
constructed Frank / Clayton / Gumbel candidates, carries the Kendall tau of X and that family's
calibration of it, is Frank for non-positive tau, skips candidates whose calibration refuses, and
no decision or result depends on the RNG or on uninitialised memory.
The family-recovery clause is statistical and outside the claim."""
import time
import warnings

import numpy as np
import pandas as pd
import z3

import copulas.bivariate as BV
import copulas.bivariate.base as B
from copulas.bivariate import Clayton, Frank, Gumbel, select_copula

from symx.core import Ctx, SymReal, explore, model_value, objarr, sym, symarr, tz
from symx.report import Check
from symx.rng import RNGModel
from symx.shim import Havoc, NPShim, patched, uses_havoc
from . import stubs
from .c10 import patches as fit_patches
from .copsuite import pool_map


class RankSeries:
    """pd.Series(values).rank(...) on symbolic scores.  The ranks only decide which candidate wins; they are
    abstracted: the sum of ranks is a placeholder and np.argmax of it is a nondeterministic choice among the
    candidates (sound over-approximation: every candidate may win; no clause depends on the winner)."""

    def __init__(self, values):
        self.n = len(list(values))

    def rank(self, ascending=True, **k):
        return self

    def __add__(self, o):
        return self

    __radd__ = __add__

    def to_numpy(self):
        return self


class NPShim11(NPShim):
    def argmax(self, a, *args, **k):
        if isinstance(a, RankSeries):
            return Ctx.cur.choose(a.n, 'winner')
        if isinstance(a, np.ndarray) and a.dtype == object and any(isinstance(x, RankSeries) for x in a.flat):
            return Ctx.cur.choose(len(a), 'winner')
        return NPShim.argmax(self, a, *args, **k)


class PDShim:
    def __getattr__(self, k):
        return getattr(pd, k)

    def Series(self, data=None, *a, **k):
        vals = list(data) if data is not None else []
        if any(isinstance(x, SymReal) for x in vals):
            return RankSeries(vals)
        return pd.Series(data, *a, **k)


def relax_scores(cond):
    """comparisons between tail-area scores (terms with exp/log/pow) only rank the candidates: both outcomes
    are explored and nothing is recorded - no clause of the property depends on which candidate wins"""
    from symx.trans import has_trans
    return has_trans(cond)


def harness(n, steps, via_class=False, tau_sign=None):
    def fn(ctx):
        Havoc.reset()
        rng = RNGModel()
        X = symarr('x', n, 2)
        for x in X.flat:
            ctx.assume(x.t >= 0, x.t <= 1)
        kt = stubs.KendallStub('tau', check_const=True)
        sh = NPShim11(havoc_empty=True, force_obj=True, random=rng)
        with fit_patches(kt), patched(BV, np=sh, pd=PDShim(), COMPUTE_EMPIRICAL_STEPS=steps):
            if tau_sign is not None:
                pass
            r = B.Bivariate.select_copula(X) if via_class else select_copula(X)
        return r, X, list(rng.requests)
    return fn


def analyse(paths, n):
    out = {'n': len(paths), 'bad': [], 'stat': {}, 'nq': 0}
    for p in paths:
        out['nq'] += p.ctx.queries
        key = p.status if p.status != 'exc' else type(p.exc).__name__
        if p.status == 'ok':
            key = type(p.value[0]).__name__
        out['stat'][key] = out['stat'].get(key, 0) + 1

        def model_data():
            s_ = z3.Solver()
            s_.add(*p.ctx.pc)
            if s_.check() != z3.sat:
                return None
            m = s_.model()
            return [[model_value(m, z3.Real(f'x_{i}_{j}')) for j in (0, 1)] for i in range(n)]
        if p.status == 'unsupported':
            out['bad'].append({'what': f'unsupported: {p.exc}', 'data': None})
            continue
        if p.status == 'exc':
            if isinstance(p.exc, ValueError):
                # refusal is only allowed for the reasons Frank.fit may refuse (constant column / theta = 0)
                s = z3.Solver()
                s.add(*p.ctx.pc)
                taus = p.ctx.notes.get('taus', [])
                X = symarr('x', n, 2)
                const = z3.Or(*[z3.And(*[tz(X[i, j]) == tz(X[0, j]) for i in range(1, n)]) for j in (0, 1)])
                ok_reason = [const, z3.Real('theta_ls') == 0]
                s.add(z3.Not(z3.Or(*ok_reason)))
                if s.check() != z3.unsat:
                    out['bad'].append({'what': f'ValueError ({p.exc}) on valid pseudo-observations', 'data': model_data()})
            else:
                out['bad'].append({'what': f'raises {type(p.exc).__name__}: {str(p.exc)[:100]}', 'data': model_data()})
            continue
        r, X, req = p.value
        taus = p.ctx.notes.get('taus', [])
        if type(r) not in (Frank, Clayton, Gumbel):
            out['bad'].append({'what': f'returns {type(r).__name__}', 'data': model_data()})
            continue
        if req:
            out['bad'].append({'what': 'draws from the random generator', 'data': model_data()})
        if any(uses_havoc(c) for c in p.ctx.pc) or (isinstance(r.theta, SymReal) and uses_havoc(r.theta.t)):
            out['bad'].append({'what': 'depends on uninitialised memory', 'data': model_data()})
        if len(taus) != 1 or not isinstance(r.tau, SymReal) or not r.tau.t.eq(taus[0].t):
            out['bad'].append({'what': 'tau of the result is not the Kendall tau of X (one kendalltau call)', 'data': model_data()})
            continue
        kts = [e for e in p.ctx.log if e[0] == 'kendalltau']
        if not (len(kts) == 1 and all(tz(kts[0][1][i]).eq(tz(X[i, 0])) and tz(kts[0][2][i]).eq(tz(X[i, 1])) for i in range(n))):
            out['bad'].append({'what': 'kendalltau not applied to the two columns of X', 'data': model_data()})
        t = taus[0].t
        s = z3.Solver()
        s.set('timeout', 20000)
        s.add(*p.ctx.pc)

        def valid(g):
            s.push()
            s.add(z3.Not(g))
            r_ = s.check()
            s.pop()
            return r_ == z3.unsat
        if not isinstance(r.theta, SymReal):
            if type(r) is Clayton and r.theta == float('inf') and valid(t == 1):
                continue            # tau = 1 is outside the property's quantifier
            out['bad'].append({'what': f'theta is {r.theta!r}', 'data': model_data()})
            continue
        th = tz(r.theta)
        if type(r) is Frank:
            if not th.eq(z3.Real('theta_ls')):
                out['bad'].append({'what': 'Frank theta is not the calibrated root', 'data': model_data()})
            if not valid(th != 0):
                out['bad'].append({'what': 'Frank returned with theta = 0', 'data': model_data()})
        elif type(r) is Clayton:
            if not valid(z3.And(th == 2 * t / (1 - t), th > 0, t > 0)):
                out['bad'].append({'what': 'Clayton theta is not 2 tau/(1-tau) > 0', 'data': model_data()})
        else:
            if not valid(z3.And(th >= 1, 1 - 1 / th == t, t > 0)):
                out['bad'].append({'what': 'Gumbel theta is not 1/(1-tau) >= 1', 'data': model_data()})
        if type(r) is not Frank and not valid(t > 0):
            out['bad'].append({'what': 'non-positive tau must give Frank', 'data': model_data()})
    out['bad'] = out['bad'][:8]
    return out


def run_case(a):
    n, steps, via_class, tlimit = a
    t0 = time.time()
    try:
        from symx.par import par_explore
        Ctx.relax = None
        outs, ex, total, dt = par_explore(harness(n, steps, via_class), lambda ps: analyse(ps, n), nprocs=16, frontier=32,
                                          tlimit=tlimit, max_paths=200000, chunk=100)
        agg = {'n': n, 'steps': steps, 'via_class': via_class, 'paths': total, 'exhaustive': ex, 'bad': [], 'stat': {}, 'nq': 0,
               'secs': time.time() - t0}
        for o in outs:
            agg['bad'] = (agg['bad'] + o['bad'])[:8]
            agg['nq'] += o['nq']
            for k, v in o['stat'].items():
                agg['stat'][k] = agg['stat'].get(k, 0) + v
        return agg
    except BaseException:
        import traceback
        return {'n': n, 'steps': steps, 'via_class': via_class, 'error': traceback.format_exc()[-1500:], 'paths': 0, 'secs': 0}


# ---------------------------------------------------------------- concrete replay

def datasets(extra=None):
    rs = np.random.RandomState(0)
    out = []
    if extra:
        out.append(np.array(extra, dtype=float))
    u = rs.uniform(size=300)
    for rho in (0.8, 0.3, -0.5, 0.0):
        z = rs.normal(size=(300, 2))
        z[:, 1] = rho * z[:, 0] + np.sqrt(1 - rho ** 2) * z[:, 1]
        from scipy import stats
        out.append(stats.norm.cdf(z))
    out.append(np.array([[.1, .2], [.2, .1], [.5, .6], [.9, .95], [.7, .3]]))
    out.append(np.array([[.1, .9], [.4, .5], [.8, .2], [.6, .55]]))
    out.append(np.array([[.1, .1], [.2, .4], [.3, .3], [.4, .2]]))     # tau exactly 0
    # rank tables whose Kendall tau is exactly 0 (permutations of 0..5 / 0..6), and tables with repeated rows
    import itertools
    from scipy import stats
    for n in (6, 7, 8, 9, 12, 13, 16, 20):
        cnt = 0
        prs = np.random.RandomState(n)
        for _ in range(6000):
            perm = prs.permutation(n)
            if stats.kendalltau(np.arange(n), perm)[0] == 0:
                out.append(np.column_stack(((np.arange(n) + 0.5) / n, (perm + 0.5) / n)))
                cnt += 1
                if cnt >= 25:
                    break
    base = out[1 if extra else 0]
    out.append(base[rs.randint(0, len(base), size=len(base))])       # bootstrap resample: repeated rows
    out.append(np.repeat(np.array([[.2, .3], [.5, .4], [.8, .9], [.6, .1]]), [3, 1, 2, 1], axis=0))
    return out


def concrete_violation(extra=None):
    warnings.simplefilter('ignore')
    from scipy import stats, integrate
    earlier = []       # (result, type, tau, theta) of the previous calls: a result belongs to its own X, whatever is selected afterwards
    for X in datasets(extra):
        if X.ndim != 2 or len(X) < 2:
            continue
        for (r0, ty0, tau0, th0) in earlier:
            if type(r0) is not ty0 or r0.tau != tau0 or r0.theta != th0:
                return True, (f'a later select_copula call rewrote an earlier result: {ty0.__name__}(tau={tau0}, theta={th0}) became '
                              f'{type(r0).__name__}(tau={r0.tau}, theta={r0.theta})')
        tau = stats.kendalltau(X[:, 0], X[:, 1])[0]
        try:
            r = select_copula(X)
            r2 = select_copula(X.copy())
            r3 = B.Bivariate.select_copula(X)
        except ValueError as e:
            if np.isnan(tau) or abs(tau) < 1e-12 or len(np.unique(X[:, 0])) == 1 or len(np.unique(X[:, 1])) == 1:
                continue
            return True, f'select_copula raises ValueError ({e}) for data with tau={tau}'
        except Exception as e:
            return True, f'select_copula raises {type(e).__name__}: {e} for data with tau={tau}'
        if type(r) not in (Frank, Clayton, Gumbel):
            return True, f'select_copula returns {type(r).__name__}'
        if not np.isclose(r.tau, tau):
            return True, f'tau of the result {r.tau} is not the Kendall tau {tau} of X'
        if tau <= 0 and type(r) is not Frank:
            return True, f'tau={tau} <= 0 but the result is {type(r).__name__}'
        if type(r) is Clayton and not np.isclose(r.theta, 2 * tau / (1 - tau)):
            return True, 'Clayton theta is not the calibration of tau'
        if type(r) is Gumbel and not np.isclose(r.theta, 1 / (1 - tau)):
            return True, 'Gumbel theta is not the calibration of tau'
        if type(r) is Frank:
            d1 = integrate.quad(lambda t: t / np.expm1(t), 0, r.theta)[0] / r.theta
            # least_squares stops early on the flat part of the relation around tau = 0 (numerics outside the claim)
            if r.theta == 0 or not np.isclose(1 - 4 / r.theta * (1 - d1), tau, atol=(5e-3 if abs(tau) < 0.05 else 2e-5)):
                return True, f'Frank theta {r.theta} is not the calibration of tau {tau}'
        if type(r2) is not type(r) or r2.theta != r.theta or type(r3) is not type(r) or r3.theta != r.theta:
            return True, 'select_copula is not a deterministic function of X / the deprecated class method differs'
        if r is r2 or r is r3 or any(r is e[0] for e in earlier):
            return True, 'select_copula hands out the same model object for different calls (results alias each other)'
        earlier.append((r, type(r), r.tau, r.theta))
    return False, ''


def recovery_witness():
    """fixed-seed samples (n = 3000, tau = 0.5) of each family, drawn with the library's own sampler: select_copula returns the
    generating family (deterministic witness of the statistical clause), is a function of X alone (same answer under a
    different global RNG state) and does not consume the global RNG"""
    warnings.simplefilter('ignore')
    for cls, tau in ((Clayton, 0.5), (Gumbel, 0.5), (Frank, 0.5), (Gumbel, 0.35), (Clayton, 0.65)):
        c = cls(random_state=11)
        c.tau = tau
        c.theta = c.compute_theta()
        X = c.sample(3000)
        np.random.seed(5)
        st = np.random.get_state()[1].copy()
        r1 = select_copula(X)
        if not np.array_equal(np.random.get_state()[1], st):
            return True, f'select_copula on {len(X)} rows consumes the global NumPy random state'
        np.random.seed(6)
        r2 = select_copula(X)
        if type(r1) is not type(r2) or r1.theta != r2.theta:
            return True, (f'select_copula is not a function of X: {type(r1).__name__}(theta={r1.theta}) and {type(r2).__name__}(theta={r2.theta}) '
                          f'for the same {len(X)}-row array under two global RNG states')
        if type(r1) is not cls:
            return True, f'a seeded {cls.__name__} sample (n=3000, tau={tau}) is selected as {type(r1).__name__}'
    return False, ''


def replay(d):
    if d.get('kind') == 'recovery':
        bad, detail = recovery_witness()
        print(detail)
        return bad
    bad, detail = concrete_violation(d.get('data'))
    print(detail)
    return bad


def run(tier, seed):
    ck = Check('C11', tier, seed, 'model_checking',
               'exhaustive path enumeration of the real select_copula on symbolic pseudo-observations with scipy as contract stubs; '
               'z3 decides the calibration clauses on every path')
    ck.encode(select_copula, BV._compute_empirical, BV._compute_tail, BV._compute_candidates, B.Bivariate.select_copula, B.Bivariate.fit,
              B.Bivariate._compute_theta, Clayton.compute_theta, Gumbel.compute_theta, Frank.compute_theta)
    ck.stubs = ['kendalltau / least_squares / quad as in C10', 'the rank-sum scoring is abstracted: any candidate may win (nondeterministic choice)',
                'np.empty: havoc; np.random: RNG model (any draw is a finding)']
    cases = [(2, 2, False, 300), (2, 2, True, 300)] if tier == 'quick' else [(2, 2, False, 1500), (2, 2, True, 1500)]  # rows=3 or a 3-point grid did not finish within 25 min (measured); not claimed
    ck.bounds = {'rows': sorted({c[0] for c in cases}), 'COMPUTE_EMPIRICAL_STEPS': sorted({c[1] for c in cases}) ,
                 'values': 'any reals in [0,1] (ties allowed)', 'tau': 'any real in [-1,1]'}
    ck.outside = ['"returns the generating family with high probability" (statistical) and therefore the scoring formulas themselves',
                  'the numerics of least_squares / quad']
    ck.assumptions = ['stub contracts; exact real arithmetic; exp/log/pow uninterpreted in the tail-area comparisons (all orderings explored)']
    for c in cases:
        r = run_case(c)
        if r.get('error'):
            ck.inconcl(f'{c}: harness error {r["error"]}')
            continue
        ck.paths += r['paths']
        ck.states += r['paths']
        ck.transitions += r['nq']
        ck.queries += r['nq']
        ck.solver_s += r['secs']
        nm = f"{'Bivariate.select_copula' if r['via_class'] else 'select_copula'} rows={r['n']} steps={r['steps']}: {r['paths']} paths {r['stat']}"
        ck.sample({'case': nm})
        if not r['exhaustive']:
            ck.inconcl(nm + ': exploration not exhaustive')
        ck.ob(nm, 'unsat' if not r['bad'] else 'sat', r['secs'], queries=0, paths=r['paths'])
        seen = set()
        for fl in r['bad']:
            k = fl['what'][:50]
            if k in seen:
                continue
            seen.add(k)
            b, detail = concrete_violation(fl.get('data'))
            if b:
                ck.violation(k, f'{nm}: {fl["what"]} -- {detail}', {'data': fl.get('data')})
            else:
                ck.inconcl(f'{nm}: {fl["what"]}; not reproduced on the real code')
    b, detail = concrete_violation()
    ck.traces_validated = len(datasets())
    if b:
        ck.violation('conformance', detail, {})
    b, detail = recovery_witness()
    ck.traces_validated += 5
    if b:
        ck.violation('recovery witness', detail, {'kind': 'recovery'})
    return ck.finish()
