"""C20 - library calls never modify caller-owned inputs; plots show exactly the data.

Two engines: (a) symx - the real entry points run on symbolic arrays/frames; after the call every
argument must be element-wise identical (same z3 terms / same python objects) to its snapshot on
every feasible path; (b) CrossHair - the pure-container logic of the visualisation helpers
(column lists) is checked for aliasing with plotly stubbed by a recorder.
"""
import copy
import os
import subprocess
import sys
import time
import warnings

import numpy as np
import pandas as pd
import z3

import copulas.optimize as O
import copulas.visualization as V
from copulas.multivariate.gaussian import GaussianMultivariate

from symx.core import Ctx, SymReal, explore, objarr, sym, symarr, tz
from symx.report import Check, ROOT
from symx.rng import RNGModel
from symx.shim import NPShim, patched
from . import gm
from .copsuite import pool_map


def freeze(*arrs):
    """caller-owned arrays are made read-only: any in-place write raises instead of going unnoticed
    when it happens not to change a value"""
    for a in arrs:
        if isinstance(a, np.ndarray):
            a.flags.writeable = False


def snap(x):
    if isinstance(x, np.ndarray):
        return ('nd', x.shape, list(x.flat))
    if isinstance(x, pd.DataFrame):
        return ('df', list(x.columns), list(x.index), list(x.to_numpy().flat))
    if isinstance(x, pd.Series):
        return ('sr', list(x.index), list(x.to_numpy().flat), x.name)
    if isinstance(x, dict):
        return ('dict', [(k, snap(v)) for k, v in x.items()])
    if isinstance(x, (list, tuple)):
        return ('list', [snap(v) for v in x])
    return ('leaf', x)


def same(a, b):
    if a[0] != b[0]:
        return False
    if a[0] == 'leaf':
        x, y = a[1], b[1]
        if isinstance(x, SymReal) or isinstance(y, SymReal):
            return isinstance(x, SymReal) and isinstance(y, SymReal) and x.t.eq(y.t)
        return x is y or x == y or (x != x and y != y)
    if a[0] in ('nd', 'df', 'sr'):
        if a[1:-1] != b[1:-1] and a[0] != 'sr':
            return False
        la, lb = (a[-1], b[-1]) if a[0] != 'sr' else (a[2], b[2])
        if a[0] == 'sr' and (a[1] != b[1] or a[3] != b[3]):
            return False
        return len(la) == len(lb) and all(same(('leaf', x), ('leaf', y)) for x, y in zip(la, lb))
    if a[0] == 'dict':
        return len(a[1]) == len(b[1]) and all(k1 == k2 and same(v1, v2) for (k1, v1), (k2, v2) in zip(a[1], b[1]))
    return len(a[1]) == len(b[1]) and all(same(x, y) for x, y in zip(a[1], b[1]))


# ---------------------------------------------------------------- entry points (symbolic)

def ep_bisect(ctx):
    from .c18 import make_f, Shim18
    calls = []
    lo = [sym('lo0'), sym('lo1')]
    hi = [sym('hi0'), sym('hi1')]
    for a, b in zip(lo, hi):
        ctx.assume(a.t <= b.t)
    f = make_f(ctx, (0, 1), calls)
    xmin, xmax = objarr(lo), objarr(hi)
    freeze(xmin, xmax)
    args = {'xmin': xmin, 'xmax': xmax}
    before = {k: snap(v) for k, v in args.items()}
    with patched(O, np=Shim18(havoc_empty=False, force_obj=True)):
        O.bisect(f, xmin, xmax, maxiter=2)
    return args, before


def ep_chandrupatla(ctx):
    from .c18 import make_f, Shim18, relax_iqi
    calls = []
    lo, hi = [sym('lo0')], [sym('hi0')]
    ctx.assume(lo[0].t <= hi[0].t)
    ctx.notes['lanes'] = (0,)
    f = make_f(ctx, (0,), calls)
    xmin, xmax = objarr(lo), objarr(hi)
    freeze(xmin, xmax)
    args = {'xmin': xmin, 'xmax': xmax}
    before = {k: snap(v) for k, v in args.items()}
    with patched(O, np=Shim18(havoc_empty=False, force_obj=True)):
        O.chandrupatla(f, xmin, xmax, maxiter=2)
    return args, before


def _gm_model(d=3):
    cols = ['c', 'a', 'b'][:d]
    df, M = gm.sym_corr(cols)
    return cols, df, M


def ep_gm_sample_conditions(container):
    def fn(ctx):
        cols, df, M = _gm_model()
        rng = RNGModel()
        m = gm.fitted_model(cols, df)
        vals = {'a': sym('x_a')}
        conds = dict(vals) if container == 'dict' else pd.Series(objarr([vals['a']]), index=['a'])
        args = {'conditions': conds}
        before = {k: snap(v) for k, v in args.items()}
        with gm.gm_patches(rng=rng):
            m.sample(2, conditions=conds)
        return args, before
    return fn


def ep_gm_density(kind):
    def fn(ctx):
        cols, df, M = _gm_model()
        m = gm.fitted_model(cols, df)
        xs = symarr('x', 2, 3)
        if kind == 'frame':
            X = pd.DataFrame(xs.copy(), columns=['b', 'c', 'a'], index=[7, 3])
        elif kind == 'array':
            X = xs.copy()
            freeze(X)
        else:
            X = pd.Series(xs[0].copy(), index=cols)
        args = {'X': X}
        before = {k: snap(v) for k, v in args.items()}
        with gm.gm_patches():
            m.probability_density(X)
            m.cumulative_distribution(X)
        return args, before
    return fn


def ep_gm_fit(ctx):
    cols = ['c', 'a']
    xs = symarr('x', 2, 2)
    X = pd.DataFrame(xs.copy(), columns=cols, index=[12, 5])
    cfg = {'c': gm.StubDist}
    args = {'X': X, 'distribution': cfg}
    before = {k: snap(v) for k, v in args.items()}
    gm.StubDist.COLIDX = {'c': 0, 'a': 1}
    gm.StubDist.FITS = []
    gm.StubDist.RAISE_ON = set()
    cs = gm.CorrStub()
    import copulas.multivariate.gaussian as G
    with gm.gm_patches(), patched(pd.DataFrame, corr=lambda self, *a, **k: cs(self, *a, **k)), patched(G, DEFAULT_DISTRIBUTION=gm.StubDefault):
        m = GaussianMultivariate(distribution=cfg)
        m.fit(X)
    return args, before


def ep_bivariate(fam, method):
    def fn(ctx):
        from .cop import FAMILIES, mk, shimmed
        from .copsuite import TH
        cls, dom = FAMILIES[fam]
        ctx.assume(*dom(TH.t))
        xs = symarr('u', 2, 2)
        for x in xs.flat:
            ctx.assume(x.t > 0, x.t < 1)
        freeze(xs)
        c = mk(cls, TH)
        args = {'X': xs}
        before = {k: snap(v) for k, v in args.items()}
        with shimmed():
            if method == 'percent_point':
                args = {'y': xs[:, 0].copy(), 'V': xs[:, 1].copy()}
                before = {k: snap(v) for k, v in args.items()}
                from . import stubs
                import copulas.bivariate.base as B
                with patched(B, brentq=stubs.BrentqStub()):
                    c.percent_point(args['y'], args['V'])
            else:
                getattr(c, method)(xs)
        return args, before
    return fn


def ep_bivariate_fit(fam):
    def fn(ctx):
        from .c10 import FAMS, patches
        from . import stubs
        X = symarr('x', 2, 2)
        freeze(X)
        args = {'X': X}
        before = {k: snap(v) for k, v in args.items()}
        with patches(stubs.KendallStub()):
            try:
                FAMS[fam][0]().fit(X)
            except ValueError:
                pass
        return args, before
    return fn


def ep_select_copula(ctx):
    import copulas.bivariate as BV
    from .c10 import patches
    from . import stubs
    X = symarr('x', 2, 2)
    args = {'X': X}
    before = {k: snap(v) for k, v in args.items()}
    with patches(stubs.KendallStub()), patched(BV, COMPUTE_EMPIRICAL_STEPS=2, np=NPShim(havoc_empty=False, force_obj=True)):
        try:
            BV.select_copula(X)
        except ValueError:
            pass
    return args, before


class PxRecorder:
    def __init__(self):
        self.calls = []

    def _fig(self):
        rec = self

        class Fig:
            def update_layout(self, *a, **k):
                return self

            def update_traces(self, *a, **k):
                return self
        return Fig()

    def scatter(self, data, **k):
        self.calls.append(('scatter', data.copy(), k))
        return self._fig()

    def scatter_3d(self, data, **k):
        self.calls.append(('scatter_3d', data.copy(), k))
        return self._fig()


def ep_visual(which, with_columns):
    def fn(ctx):
        dim = 3 if '3d' in which else 2
        names = ['p', 'q', 'r', 's'][:dim + 1]
        real = pd.DataFrame(symarr('r', 2, dim + 1), columns=names, index=[4, 9])
        synth = pd.DataFrame(symarr('s', 2, dim + 1), columns=names, index=[9, 4])      # overlapping labels
        cols = list(reversed(names[1:dim + 1])) if with_columns else None        # not in frame order
        if with_columns:
            # a missing value in a column that is not plotted: the row is still one of the given rows
            real.iloc[0, 0] = float('nan')
            synth.iloc[1, 0] = float('nan')
        px = PxRecorder()
        if which.startswith('compare'):
            args = {'real': real if with_columns else real[names[:dim]], 'synth': synth if with_columns else synth[names[:dim]], 'columns': cols}
        else:
            args = {'data': real if with_columns else real[names[:dim]], 'columns': cols}
        before = {k: snap(v) for k, v in args.items()}
        with patched(V, px=px):
            getattr(V, which)(**args)
        ctx.notes['px'] = px.calls
        ctx.notes['args'] = args
        return args, before
    return fn


def plot_content_ok(which, with_columns, calls, args):
    """the frame passed to plotly holds every input row exactly once with the right label and the
    requested columns on the axes"""
    if len(calls) != 1:
        return False, f'{len(calls)} plot calls'
    kind, frame, k = calls[0]
    dim = 3 if '3d' in which else 2
    if kind != ('scatter_3d' if dim == 3 else 'scatter'):
        return False, 'wrong plot function'
    if which.startswith('compare'):
        srcs = [('Real', args['real']), ('Synthetic', args['synth'])]
    else:
        srcs = [('Real', args['data'])]
    cols = args['columns'] or list(srcs[0][1].columns[:dim])
    axes = [k.get('x'), k.get('y')] + ([k.get('z')] if dim == 3 else [])
    if axes != cols[:dim]:
        return False, f'axes {axes} != requested {cols[:dim]}'
    if k.get('color') != 'Data':
        return False, 'not coloured by Data'
    rows = []
    for lab, df in srcs:
        for r in range(len(df)):
            rows.append((lab, [df[c].iloc[r] for c in cols[:dim]]))
    if len(frame) != len(rows):
        return False, f'{len(frame)} rows plotted, {len(rows)} given'
    used = [False] * len(rows)
    for r in range(len(frame)):
        lab = frame['Data'].iloc[r]
        vals = [frame[c].iloc[r] for c in cols[:dim]]
        hit = False
        for i, (l2, v2) in enumerate(rows):
            if not used[i] and l2 == lab and all(tz(a).eq(tz(b)) for a, b in zip(vals, v2)):
                used[i] = True
                hit = True
                break
        if not hit:
            return False, f'plotted row {r} ({lab}) is not an unused input row'
    return True, ''


ENTRY = {
    'optimize.bisect(xmin, xmax)': ep_bisect,
    'optimize.chandrupatla(xmin, xmax)': ep_chandrupatla,
    'GaussianMultivariate.sample(conditions=dict)': ep_gm_sample_conditions('dict'),
    'GaussianMultivariate.sample(conditions=Series)': ep_gm_sample_conditions('Series'),
    'GaussianMultivariate.pdf/cdf(DataFrame)': ep_gm_density('frame'),
    'GaussianMultivariate.pdf/cdf(ndarray)': ep_gm_density('array'),
    'GaussianMultivariate.pdf/cdf(Series)': ep_gm_density('series'),
    'GaussianMultivariate.fit(DataFrame, distribution=dict)': ep_gm_fit,
}
for _f in ('clayton', 'frank+', 'gumbel'):
    for _m in ('cumulative_distribution', 'probability_density', 'partial_derivative', 'percent_point'):
        ENTRY[f'{_f}.{_m}'] = ep_bivariate(_f, _m)
for _f in ('clayton', 'frank', 'gumbel'):
    ENTRY[f'{_f}.fit(X)'] = ep_bivariate_fit(_f)
VIS = {}
for _w in ('scatter_2d', 'compare_2d', 'scatter_3d', 'compare_3d'):
    for _c in (True, False):
        VIS[f'visualization.{_w}(columns={"list" if _c else "None"})'] = (_w, _c)
        ENTRY[f'visualization.{_w}(columns={"list" if _c else "None"})'] = ep_visual(_w, _c)


def task(name):
    t0 = time.time()
    try:
        Ctx.relax = None
        if 'chandrupatla' in name:
            from .c18 import relax_iqi
            Ctx.relax = staticmethod(relax_iqi)
        paths, ex, _ = explore(ENTRY[name], max_paths=4000, tlimit=240, ieee_div=('chandrupatla' in name),
                               catch=(Exception, AssertionError))
        Ctx.relax = None
        mutated = []
        raised = []
        plot_bad = []
        nok = 0
        for p in paths:
            if p.status == 'unsupported':
                raised.append('unsupported: ' + str(p.exc))
                continue
            if p.status == 'exc':
                if isinstance(p.exc, ValueError) and 'read-only' in str(p.exc):
                    mutated.append('in-place write to a caller-owned array')
                    continue
                if isinstance(p.exc, (AssertionError,)) or (isinstance(p.exc, ValueError) and 'different signs' in str(p.exc)):
                    continue
                raised.append(f'{type(p.exc).__name__}: {p.exc}')
                continue
            nok += 1
            args, before = p.value
            for k, v in args.items():
                if not same(snap(v), before[k]):
                    mutated.append(k)
            if name in VIS:
                ok, why = plot_content_ok(VIS[name][0], VIS[name][1], p.ctx.notes.get('px', []), p.ctx.notes.get('args'))
                if not ok:
                    plot_bad.append(why)
        return {'name': name, 'paths': len(paths), 'ok_paths': nok, 'exhaustive': ex, 'mutated': sorted(set(mutated)),
                'n_mut_paths': len(mutated), 'raised': raised[:3], 'plot_bad': plot_bad[:3], 'secs': time.time() - t0}
    except BaseException:
        import traceback
        return {'name': name, 'error': traceback.format_exc()[-1500:], 'paths': 0, 'secs': 0}


# ---------------------------------------------------------------- CrossHair part

CH_SRC = '''
import sys, types
from typing import List
sys.path.insert(0, %(repo)r)
import pandas as pd

class _Fig:
    def update_layout(self, *a, **k): return self
    def update_traces(self, *a, **k): return self

class _Px:
    def scatter(self, data, **k): return _Fig()
    def scatter_3d(self, data, **k): return _Fig()

import copulas.visualization as V
V.px = _Px()
_DATA2 = pd.DataFrame({'a': [1.0, 2.0], 'b': [3.0, 4.0]})
_DATA3 = pd.DataFrame({'a': [1.0, 2.0], 'b': [3.0, 4.0], 'c': [5.0, 6.0]})


def scatter_2d_keeps_columns(columns: List[str]) -> List[str]:
    """
    pre: len(columns) <= 3 and all(c in ('a', 'b') for c in columns)
    post: __return__ == __old__.columns
    """
    try:
        V.scatter_2d(_DATA2, columns=columns)
    except (ValueError, KeyError, IndexError):
        pass
    return columns


def compare_2d_keeps_columns(columns: List[str]) -> List[str]:
    """
    pre: len(columns) <= 3 and all(c in ('a', 'b') for c in columns)
    post: __return__ == __old__.columns
    """
    try:
        V.compare_2d(_DATA2, _DATA2, columns=columns)
    except (ValueError, KeyError, IndexError):
        pass
    return columns


def scatter_3d_keeps_columns(columns: List[str]) -> List[str]:
    """
    pre: len(columns) <= 4 and all(c in ('a', 'b', 'c') for c in columns)
    post: __return__ == __old__.columns
    """
    try:
        V.scatter_3d(_DATA3, columns=columns)
    except (ValueError, KeyError, IndexError):
        pass
    return columns


def compare_3d_keeps_columns(columns: List[str]) -> List[str]:
    """
    pre: len(columns) <= 4 and all(c in ('a', 'b', 'c') for c in columns)
    post: __return__ == __old__.columns
    """
    try:
        V.compare_3d(_DATA3, _DATA3, columns=columns)
    except (ValueError, KeyError, IndexError):
        pass
    return columns
'''


def crosshair_part(timeout_s=40):
    work = os.path.join(ROOT, '.work', f'c20.{os.getpid()}')
    os.makedirs(work, exist_ok=True)
    path = os.path.join(work, 'ch_c20.py')
    open(path, 'w').write(CH_SRC % {'repo': os.environ.get('VERIF_REPO', '/repo')})
    out = {}
    try:
        procs = {}
        for fn in ('scatter_2d_keeps_columns', 'compare_2d_keeps_columns', 'scatter_3d_keeps_columns', 'compare_3d_keeps_columns'):
            cmd = [sys.executable, '-m', 'crosshair', 'check', '--report_all', '--per_condition_timeout', str(timeout_s),
                   f'ch_c20.{fn}']
            procs[fn] = subprocess.Popen(cmd, stdout=subprocess.PIPE, stderr=subprocess.STDOUT, text=True, cwd=work,
                                         env=dict(os.environ, PYTHONPATH=work + os.pathsep + ROOT))
        for fn, pr in procs.items():
            try:
                txt = pr.communicate(timeout=timeout_s * 3 + 30)[0].strip()
            except subprocess.TimeoutExpired:
                pr.kill()
                txt = 'timeout'
            if 'Confirmed over all paths' in txt:
                st = 'confirmed'
            elif 'error:' in txt and ('false when calling' in txt or 'raises' in txt.lower()):
                st = 'counterexample'
            else:
                st = 'inconclusive'
            out[fn] = (st, txt[-300:])
    finally:
        import shutil
        shutil.rmtree(work, ignore_errors=True)
    return out


# ---------------------------------------------------------------- concrete replay

def concrete_mutation(name):
    """replay on the real code with concrete inputs: is a caller-owned argument changed?"""
    import copulas.visualization as VV
    if name.startswith('visualization.'):
        which = name.split('.')[1].split('(')[0]
        dim = 3 if '3d' in which else 2
        df = pd.DataFrame(np.arange(8.0).reshape(2, 4), columns=['p', 'q', 'r', 's'])
        cols = list(reversed(['q', 'r', 's'][:dim]))
        before = list(cols)
        a, b = df.copy(), df.copy() + 10
        try:
            if which.startswith('compare'):
                VV.__dict__[which](a, b, columns=cols)
            else:
                VV.__dict__[which](a, columns=cols)
        except Exception as e:
            return True, f'{which} raises {type(e).__name__}: {e}'
        fig = None
        try:
            fig = VV.__dict__[which](a.copy(), b.copy(), columns=list(cols)) if which.startswith('compare') else VV.__dict__[which](a.copy(), columns=list(cols))
        except Exception:
            pass
        if fig is not None:
            for tr in fig.data:
                src = a if tr.name == 'Real' else b
                for ax, c_ in zip(('x', 'y', 'z'), cols):
                    got = np.asarray(getattr(tr, ax), dtype=float)
                    if not np.array_equal(np.sort(got), np.sort(src[c_].to_numpy())):
                        return True, f'{which}: trace {tr.name} axis {ax} does not show column {c_} of the given rows'
        # rows with a missing value in a column that is *not* plotted are still given rows of the figure
        an = a.copy()
        an.loc[an.index[0], 'p'] = np.nan
        try:
            fign = VV.__dict__[which](an, b.copy(), columns=list(cols)) if which.startswith('compare') else VV.__dict__[which](an, columns=list(cols))
            for tr in fign.data:
                if tr.name in ('Real', None, '') or not which.startswith('compare'):
                    if tr.name == 'Synthetic':
                        continue
                    got = np.asarray(getattr(tr, 'x'), dtype=float)
                    if len(got) != len(an):
                        return True, (f'{which}: {len(got)} of {len(an)} given rows are drawn when a column that is not plotted '
                                      f'({"p"!r}) holds a missing value')
        except Exception as e:
            return True, f'{which} raises {type(e).__name__}: {e} for a frame with NaN in a column that is not plotted'
        if cols != before:
            return True, f'{which}: caller\'s columns list changed from {before} to {cols}'
        if not a.equals(df) or not b.equals(df + 10):
            return True, f'{which}: caller\'s frame changed'
        try:
            if which.startswith('compare'):
                VV.__dict__[which](a, b, columns=cols)
            else:
                VV.__dict__[which](a, columns=cols)
        except Exception as e:
            return True, f'{which}: second identical call raises {type(e).__name__}: {e}'
        return False, ''
    if name.startswith('optimize.'):
        algo = name.split('.')[1].split('(')[0]
        for lo, hi in ((np.array([0.0, -3.0]), np.array([4.0, 9.0])), (np.array([-np.inf, -3.0]), np.array([4.0, np.inf]))):
            lo0, hi0 = lo.copy(), hi.copy()
            try:
                with np.errstate(all='ignore'):
                    getattr(O, algo)(lambda x: np.tanh(x - np.array([1.5, 2.5])), lo, hi, maxiter=5)
            except Exception:
                pass
            if not (np.array_equal(lo, lo0) and np.array_equal(hi, hi0)):
                return True, f'{algo}: caller\'s xmin/xmax arrays changed from {lo0},{hi0} to {lo}, {hi}'
        return False, ''
    if name.startswith('GaussianMultivariate.fit'):
        from copulas.univariate import GaussianUnivariate
        rs = np.random.RandomState(2)
        X = pd.DataFrame(rs.normal(size=(30, 2)), columns=['c', 'a'], index=np.arange(100, 130))
        X0 = X.copy()
        cfg = {'c': GaussianUnivariate}
        GaussianMultivariate(distribution=cfg).fit(X)
        if not (X.equals(X0) and list(X.index) == list(X0.index) and list(cfg) == ['c']):
            return True, 'GaussianMultivariate.fit changed the caller\'s DataFrame (values or index) or distribution dict'
        return False, ''
    fam = name.split('.')[0]
    if fam in ('clayton', 'frank', 'frank+', 'gumbel'):
        from copulas.bivariate import Clayton, Frank, Gumbel
        cls = {'clayton': Clayton, 'frank': Frank, 'frank+': Frank, 'gumbel': Gumbel}[fam]
        meth = name.split('.')[1].split('(')[0]
        c = cls()
        c.theta, c.tau = 2.5, (0.5 if fam != 'gumbel' else 0.6)
        base = np.array([[0.3, 0.0], [0.2, 0.7], [1.0, 0.4], [0.0, 1.0], [0.65, 0.35], [0.5, 0.5], [0.8, 0.9]])
        for X in (base.copy(), np.asfortranarray(base), np.hstack([base, base])[:, 1:3]):
            owner = X.base if X.base is not None else X
            own0 = np.array(owner, copy=True)
            X0 = np.array(X, copy=True)
            try:
                with np.errstate(all='ignore'), warnings.catch_warnings():
                    warnings.simplefilter('ignore')
                    if meth == 'percent_point':
                        y, v = X[:, 0], X[:, 1]
                        c.percent_point(y[1:3] * 0 + np.array([0.2, 0.6]), v[1:3])
                    elif meth == 'fit':
                        cls().fit(X[4:])
                    else:
                        getattr(c, meth)(X)
                        if meth == 'probability_density':
                            c.log_probability_density(X)
            except Exception:
                pass
            if not (np.array_equal(X, X0) and np.array_equal(owner, own0)):
                i, j = np.argwhere(X != X0)[0]
                return True, f'{type(c).__name__}.{meth}: the caller\'s array was modified: X[{i},{j}] {X0[i, j]!r} -> {X[i, j]!r}'
        return False, ''
    return False, 'no concrete replay for this entry point'


def replay(d):
    bad, detail = concrete_mutation(d['name'])
    print(detail)
    return bad


def run(tier, seed):
    ck = Check('C20', tier, seed, 'model_checking',
               'symbolic execution of the real entry points with argument snapshots compared on every feasible path (symx) + '
               'CrossHair on the column-list logic of the visualisation helpers')
    ck.encode(O.bisect, O.chandrupatla, V.scatter_2d, V.compare_2d, V.scatter_3d, V.compare_3d, V._generate_scatter_2d_plot,
              V._generate_scatter_3d_plot, GaussianMultivariate.sample, GaussianMultivariate.fit)
    ck.stubs = ['plotly.express: recorder', 'marginals / scipy / RNG: stubs of the other checks', 'root finder f: monotone, Ackermannised']
    ck.bounds = {'arrays': '2 rows / 2 lanes', 'maxiter': 2, 'column lists': '<= 4 names (CrossHair, symbolic strings from the frame\'s columns)'}
    ck.outside = ["plotly's rendering of the frame it is given", 'entry points not listed in coverage.samples']
    ck.assumptions = ['argument identity: an argument counts as unchanged when every element is the same object / the same z3 term']
    names = list(ENTRY)
    results = pool_map(task, names)
    for r in results:
        if r.get('error'):
            ck.inconcl(f"{r['name']}: harness error {r['error']}")
            continue
        ck.paths += r['paths']
        ck.states += r['paths']
        ck.transitions += r['ok_paths']
        ck.sample({'entry': r['name'], 'paths': r['paths'], 'mutated': r['mutated']})
        if not r['exhaustive']:
            ck.inconcl(f"{r['name']}: exploration not exhaustive")
        bad = bool(r['mutated'] or r['raised'] or r['plot_bad'])
        ck.ob(f"{r['name']}: arguments unchanged on all {r['paths']} paths" + ('; plotted frame = given rows' if r['name'] in VIS else ''),
              'unsat' if not bad else 'sat', r['secs'], queries=r['paths'])
        if bad:
            what = (f"argument(s) {r['mutated']} modified on {r['n_mut_paths']} paths" if r['mutated'] else '') + \
                   (f" raises {r['raised']}" if r['raised'] else '') + (f" plot: {r['plot_bad']}" if r['plot_bad'] else '')
            b, detail = concrete_mutation(r['name'])
            if b:
                ck.violation(r['name'].split('(')[0], f"{r['name']}: {what} -- {detail}", {'name': r['name']})
            else:
                ck.inconcl(f"{r['name']}: {what}; not reproduced concretely ({detail})")
    ch = crosshair_part(30 if tier == 'quick' else 120)
    for fn, (st, txt) in ch.items():
        which = fn.replace('_keeps_columns', '')
        if st in ('confirmed', 'counterexample'):
            ck.ob(f'CrossHair: visualization.{which} leaves the caller\'s columns list unchanged (symbolic list of names)',
                  'unsat' if st == 'confirmed' else 'sat', 0.0)
        if st == 'counterexample':
            b, detail = concrete_mutation(f'visualization.{which}(columns=list)')
            if b:
                ck.violation(f'visualization.{which}', f'CrossHair counterexample: {txt[-160:]} -- {detail}', {'name': f'visualization.{which}(columns=list)'})
            else:
                ck.inconcl(f'CrossHair counterexample for {which} not reproduced: {txt[-200:]}')
        elif st != 'confirmed':
            ck.notes.append(f'CrossHair {which}: {st} ({txt[-120:]}); the symx run of the same entry point decides it')
    return ck.finish()
