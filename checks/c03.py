"""C03 - every fitted univariate obeys the laws of a distribution function.

Decided here: (a) degenerate (constant-data) models are exact point masses, right after fit and
after from_dict(to_dict()); (b) the scipy-backed families delegate pdf/cdf/ppf/logpdf to the right
scipy function with the fitted parameters; the selecting wrapper delegates to the selected
instance; (c) the GaussianKDE CDF is a non-decreasing function with the documented kernel density
as derivative, zero at its lower integration bound and at most one; (d) the KDE quantile routes
every probability correctly and solves cdf(x) - u = 0 lane-aligned over the model's bounds.
The laws of scipy's own distributions are trusted."""
import time
import warnings

import numpy as np
import z3

import copulas.univariate.base as UB
import copulas.univariate.gaussian_kde as M_KDE
from copulas.univariate import (BetaUnivariate, GammaUnivariate, GaussianKDE, GaussianUnivariate, LogLaplace,
                                StudentTUnivariate, TruncatedGaussian, UniformUnivariate, Univariate)
from copulas.utils import EPSILON

from symx.core import LOG, Ctx, SymReal, explore, model_value, objarr, sym, tz, RV
from symx.diff import diff, register
from symx.report import Check
from symx.rng import RNGModel
from symx.shim import NPShim, ns, patched
from . import gm
from .c19 import FAMILIES, KDEStub, uni_patches
from .copsuite import pool_map

R = z3.RealSort()
PHI = z3.Function('Phi', R, R)
PHID = z3.Function('phi', R, R)      # standard normal density = Phi'
register(PHI, lambda a: PHID(a))


def ndtr(x):
    x = np.asarray(x, dtype=object)
    out = np.empty(x.shape, dtype=object)
    for idx in np.ndindex(*x.shape):
        out[idx] = SymReal(PHI(tz(x[idx])))
    return out


def phi_axioms(terms):
    """Phi non-decreasing into [0,1], density non-negative: instances for all applications in `terms`"""
    args = {}
    st = list(terms)
    seen = set()
    while st:
        t = st.pop()
        if t.get_id() in seen:
            continue
        seen.add(t.get_id())
        if z3.is_app(t) and t.decl().eq(PHI):
            args[t.arg(0).get_id()] = t.arg(0)
        if z3.is_app(t) and t.decl().eq(PHID):
            args.setdefault(('d', t.arg(0).get_id()), t.arg(0))
        st.extend(t.children())
    ax = []
    A = [a for k, a in args.items() if not isinstance(k, tuple)]
    for a in A:
        ax += [PHI(a) >= 0, PHI(a) <= 1]
    for i in range(len(A)):
        for j in range(len(A)):
            if i != j:
                ax.append(z3.Implies(A[i] <= A[j], PHI(A[i]) <= PHI(A[j])))
    for k, a in args.items():
        if isinstance(k, tuple):
            ax.append(PHID(a) >= 0)
    return ax


# ---------------------------------------------------------------- (a) degenerate models

def degenerate(fam):
    cls, kw = FAMILIES[fam]
    c = sym('c')
    xs = [sym('x0'), sym('x1')]
    qs = [sym('q0')]

    def fn(ctx):
        rng = RNGModel()
        ctx.assume(qs[0].t >= 0, qs[0].t <= 1)
        with uni_patches(rng):
            m = cls(**kw)
            m.fit(objarr([c, c, c]))
            out = {}
            for tag, mm in (('fit', m), ('roundtrip', type(m).from_dict(m.to_dict()))):
                out[tag] = {'cdf': list(np.asarray(mm.cumulative_distribution(objarr(xs)), dtype=object).flat),
                            'pdf': list(np.asarray(mm.probability_density(objarr(xs)), dtype=object).flat),
                            'ppf': list(np.asarray(mm.percent_point(objarr(qs)), dtype=object).flat),
                            'sample': list(np.asarray(mm.sample(2), dtype=object).flat)}
        return out
    paths, ex, _ = explore(fn, max_paths=4000, tlimit=120)
    bad = []
    for p in paths:
        if p.status != 'ok':
            bad.append(f'{p.status}: {type(p.exc).__name__}: {str(p.exc)[:100]}')
            continue
        s = z3.Solver()
        s.set('timeout', 20000)
        s.add(*p.ctx.pc)
        for tag, o in p.value.items():
            goals = []
            for x, v in zip(xs, o['cdf']):
                goals.append(tz(v) == z3.If(x.t < c.t, 0, 1))
            for x, v in zip(xs, o['pdf']):
                goals.append(tz(v) == z3.If(x.t == c.t, 1, 0))
            for v in o['ppf'] + o['sample']:
                goals.append(tz(v) == c.t)
            s.push()
            s.add(z3.Not(z3.And(*goals)))
            r = s.check()
            s.pop()
            if r != z3.unsat:
                bad.append(f'[{tag}] not the point mass at c (cdf unit step / pdf indicator / ppf = sample = c)')
    return bad, len(paths), ex


# ---------------------------------------------------------------- (b) delegation wiring

def wiring(fam):
    cls, kw = FAMILIES[fam]
    X = [sym('x0'), sym('x1'), sym('x2')]

    def fn(ctx):
        rng = RNGModel()
        ctx.assume(X[1].t != X[0].t)
        mc = gm.ModelClassStub(fam, rng)
        with uni_patches(rng), patched(cls, MODEL_CLASS=mc):
            m = cls(**kw)
            m.fit(objarr(X))
            q = objarr([sym('q')])
            r = {'pdf': m.probability_density(q), 'cdf': m.cumulative_distribution(q), 'ppf': m.percent_point(q),
                 'logpdf': m.log_probability_density(q)}
            w = Univariate()
            w._instance = m
            w.fitted = True
            rw = {'pdf': w.probability_density(q), 'cdf': w.cumulative_distribution(q), 'ppf': w.percent_point(q),
                  'logpdf': w.log_probability_density(q)}
        return r, rw, dict(m._params), list(mc.calls)
    paths, ex, _ = explore(fn, max_paths=500, tlimit=60)
    bad = []
    for p in paths:
        if p.status != 'ok':
            bad.append(f'{type(p.exc).__name__}: {str(p.exc)[:100]}')
            continue
        r, rw, params, calls = p.value
        kinds = [c_[0] for c_ in calls]
        if kinds[:4] != ['pdf', 'cdf', 'ppf', 'logpdf']:
            bad.append(f'scipy functions called: {kinds[:4]}')
        for c_ in calls[:4]:
            if set(c_[2]) != set(params) or not all(tz(c_[2][k]).eq(tz(params[k])) for k in params):
                bad.append(f'{c_[0]} called with parameters other than the fitted ones')
        for k in r:
            a, b = np.asarray(r[k], dtype=object).flat[0], np.asarray(rw[k], dtype=object).flat[0]
            if not tz(a).eq(tz(b)):
                bad.append(f'selecting wrapper {k} differs from the selected instance')
    return bad, len(paths), ex


# ---------------------------------------------------------------- (c) KDE distribution function

def kde_model(ctx, n):
    d = [sym(f'd{i}') for i in range(n)]
    w = [sym(f'w{i}') for i in range(n)]
    s2 = sym('s2')
    ctx.assume(s2.t > 0, z3.Sum([x.t for x in w]) == 1, *[x.t >= 0 for x in w])
    m = GaussianKDE()
    m.fitted = True
    m._params = {'dataset': d}
    m._model = ns(dataset=objarr([d]), weights=objarr(w), covariance=objarr([[s2]]))
    return m, d, w, s2


def kde_patches():
    sh = NPShim(havoc_empty=True, force_obj=True)
    return patched(M_KDE, np=sh, ndtr=ndtr)


def kde_cdf(n):
    x, y = z3.Real('x'), z3.Real('y')

    def fn(ctx):
        m, d, w, s2 = kde_model(ctx, n)
        with kde_patches() as _:
            lo, hi = m._get_bounds()
            c = m.cumulative_distribution(objarr([SymReal(x), SymReal(y), lo]))
        return [tz(v) for v in c], tz(lo), tz(hi), d, w, s2
    with kde_patches():
        paths, ex, _ = explore(fn, max_paths=200, tlimit=60)
    bad = []
    if len(paths) != 1 or paths[0].status != 'ok':
        return [f'trace: {[(p.status, repr(p.exc)) for p in paths][:2]}'], len(paths), ex
    p = paths[0]
    (cx, cy, cl), lo, hi, d, w, s2 = p.value
    sd = [c for c in p.ctx.pc]
    # stdev symbol: sqrt(s2) introduced by the shim as s >= 0, s*s == s2
    ax = phi_axioms([cx, cy, cl])

    def valid(goal, extra=()):
        from symx.core import robust_check
        return robust_check(list(sd) + list(ax) + list(extra) + [z3.Not(goal)])
    # Per-kernel lemmas (cut rule; every step is a solver query).  spec(t) = sum_i w_i (Phi((t-d_i)/s) - Phi((L-d_i)/s)).
    sv = [t for t in _consts(cx) if t.decl().name().startswith('sqrt#')]
    mono = le1 = nonneg = False
    if len(sv) == 1:
        s_ = sv[0]
        ux = [PHI((x - d[i].t) / s_) for i in range(n)]
        uy = [PHI((y - d[i].t) / s_) for i in range(n)]
        lw = [PHI((lo - d[i].t) / s_) for i in range(n)]
        tx = [w[i].t * (ux[i] - lw[i]) for i in range(n)]
        ty = [w[i].t * (uy[i] - lw[i]) for i in range(n)]
        ax2 = phi_axioms(ux + uy + lw)
        wfacts = [z3.Sum([v.t for v in w]) == 1] + [v.t >= 0 for v in w]

        def lin(goal, hyps):
            from symx.core import robust_check
            return robust_check(list(hyps) + [z3.Not(goal)]) == z3.unsat
        if valid(z3.And(cx == z3.Sum(tx), cy == z3.Sum(ty)), ax2) == z3.unsat:
            ident = [cx == z3.Sum(tx), cy == z3.Sum(ty)]
            lem_m = [z3.Implies(x <= y, tx[i] <= ty[i]) for i in range(n)]
            lem_1 = [tx[i] <= w[i].t for i in range(n)]
            lem_0 = [z3.Implies(x >= lo, tx[i] >= 0) for i in range(n)]
            ok_l = all(valid(l_, ax2 + [s_ > 0]) == z3.unsat for l_ in lem_m + lem_1 + lem_0)
            if ok_l:
                mono = lin(z3.Implies(x <= y, cx <= cy), ident + lem_m)
                le1 = lin(cx <= 1, ident + lem_1 + wfacts)
                nonneg = lin(z3.Implies(x >= lo, cx >= 0), ident + lem_0)
    if not mono:
        bad.append('cdf is not non-decreasing')
    if valid(cl == 0) != z3.unsat:
        bad.append('cdf(lower integration bound) != 0')
    if not le1:
        bad.append('cdf can exceed 1')
    if not nonneg:
        bad.append('cdf negative above the lower integration bound')
    # derivative = weighted Gaussian kernel density  sum_i w_i phi((x-d_i)/s)/s
    dcdf = diff(cx, x)
    # recover s from the term: the shim's sqrt symbol
    sname = [c for c in sd if z3.is_app(c) and c.decl().kind() == z3.Z3_OP_EQ and str(c.arg(1)) == 's2' or False]
    svars = set()
    st = [cx]
    seen = set()
    while st:
        t = st.pop()
        if t.get_id() in seen:
            continue
        seen.add(t.get_id())
        if z3.is_const(t) and t.decl().kind() == z3.Z3_OP_UNINTERPRETED and t.decl().name().startswith('sqrt#'):
            svars.add(t)
        st.extend(t.children())
    if len(svars) != 1:
        bad.append(f'kernel standard deviation is not sqrt(covariance[0,0]) ({len(svars)} square roots in the term)')
    else:
        s_ = list(svars)[0]
        # term by term: d/dx [w_i (Phi((x-d_i)/s) - Phi((L-d_i)/s))] = w_i phi((x-d_i)/s)/s, then the sum
        okd = False
        if len(sv) == 1:
            parts = [diff(tx[i], x) == w[i].t * PHID((x - d[i].t) / s_) / s_ for i in range(n)]
            if all(valid(p_, [s_ > 0]) == z3.unsat for p_ in parts):
                dens = z3.Sum([w[i].t * PHID((x - d[i].t) / s_) / s_ for i in range(n)])
                from symx.core import robust_check
                okd = robust_check(parts + [diff(z3.Sum(tx), x) != dens]) == z3.unsat and valid(cx == z3.Sum(tx), ax2) == z3.unsat
        if not okd:
            bad.append('d cdf / dx is not the weighted Gaussian kernel density')
        if valid(s_ * s_ == s2.t) != z3.unsat:
            bad.append('kernel standard deviation squared is not covariance[0,0]')
    # bounds: lower = min - 5 std(data), upper = max + 5 std(data) (population std)
    ds = [v.t for v in d]
    mean = z3.Sum(ds) / n
    var = z3.Sum([(v - mean) * (v - mean) for v in ds]) / n
    stds = [t for t in _consts(lo) if t.decl().name().startswith('std#')]
    okb = len(stds) >= 1
    if okb:
        sdv = stds[0]
        g = z3.And(sdv >= 0, sdv * sdv == var,
                   z3.Or(*[lo == v - 5 * sdv for v in ds]), z3.And(*[lo <= v - 5 * sdv for v in ds]),
                   z3.Or(*[hi == v + 5 * sdv for v in ds]), z3.And(*[hi >= v + 5 * sdv for v in ds]))
        okb = valid(g) == z3.unsat
    if not okb:
        bad.append('bounds are not [min - 5 std, max + 5 std] of the dataset')
    return bad, 1, ex


def _consts(t):
    out = []
    st = [t]
    seen = set()
    while st:
        y = st.pop()
        if y.get_id() in seen:
            continue
        seen.add(y.get_id())
        if z3.is_const(y) and y.decl().kind() == z3.Z3_OP_UNINTERPRETED:
            out.append(y)
        st.extend(y.children())
    return out


# ---------------------------------------------------------------- (d) KDE quantile routing

class SolverRec:
    def __init__(self, name):
        self.name = name
        self.calls = []

    def __call__(self, f, lo, hi, *a, **k):
        lo = np.asarray(lo, dtype=object)
        n = len(lo)
        probe = objarr([sym(f'probe{i}') for i in range(n)])
        fp = f(probe)
        self.calls.append({'name': self.name, 'lo': lo.copy(), 'hi': np.asarray(hi, dtype=object).copy(), 'probe': probe, 'fprobe': fp,
                           'flo': f(lo), 'fhi': f(np.asarray(hi, dtype=object))})
        return objarr([sym(f'root{i}') for i in range(n)])


def kde_ppf(method, pattern):
    """pattern: list over lanes of 'zero' | 'one' | 'valid'"""
    def fn(ctx):
        m, d, w, s2 = kde_model(ctx, 2)
        U = []
        for i, k in enumerate(pattern):
            u = sym(f'u{i}')
            eps = RV(float(EPSILON))               # exact binary value (z3 would read a python float as a decimal string)
            one_m = RV(float(1.0 - EPSILON))
            # the two threshold points themselves are left unspecified (either routing is a valid answer there)
            if k == 'zero':
                ctx.assume(u.t >= 0, u.t < eps)
            elif k == 'one':
                ctx.assume(u.t > one_m, u.t <= 1)
            else:
                ctx.assume(u.t > eps, u.t < one_m)
            U.append(u)
        ch, bi = SolverRec('chandrupatla'), SolverRec('bisect')
        with kde_patches(), patched(M_KDE, chandrupatla=ch, bisect=bi):
            lo, hi = m._get_bounds()
            r = m.percent_point(objarr(U), method=method) if method else m.percent_point(objarr(U))
            probes = (ch.calls + bi.calls)
            cdfp = None
            if probes:
                cdfp = m.cumulative_distribution(probes[0]['probe'])
        return r, U, ch.calls, bi.calls, lo, hi, cdfp
    with kde_patches():
        paths, ex, _ = explore(fn, max_paths=500, tlimit=60)
    bad = []
    for p in paths:
        if p.status != 'ok':
            bad.append(f'{type(p.exc).__name__}: {str(p.exc)[:100]}')
            continue
        r, U, chc, bic, lo, hi, cdfp = p.value
        r = list(np.asarray(r, dtype=object).flat)
        calls = chc + bic
        want_solver = 'bisect' if method == 'bisect' else 'chandrupatla'
        valid_idx = [i for i, k in enumerate(pattern) if k == 'valid']
        if valid_idx:
            if len(calls) != 1 or calls[0]['name'] != want_solver:
                bad.append(f'solver calls {[c["name"] for c in calls]}, expected one {want_solver}')
                continue
            c = calls[0]
            if len(c['lo']) != len(valid_idx):
                bad.append('solver not called with one lane per valid probability')
                continue
            s = z3.Solver()
            s.set('timeout', 30000)
            s.add(*p.ctx.pc)
            g = []
            for j, i in enumerate(valid_idx):
                g.append(('lower bracket end is the model lower bound', tz(c['lo'][j]) == tz(lo)))
                g.append(('upper bracket end is the model upper bound', tz(c['hi'][j]) == tz(hi)))
                g.append(('the solved function is cdf(x) - u of the same lane', tz(c['fprobe'][j]) == tz(cdfp[j]) - U[i].t))
                g.append(('the root of lane j is written to the position of that probability', tz(r[i]) == z3.Real(f'root{j}')))
                g.append(('f(lower) = cdf(lower) - u <= 0', tz(c['flo'][j]) <= 0))
            for what, goal in g:
                s.push()
                s.add(z3.Not(goal))
                rr = s.check()
                s.pop()
                if rr != z3.unsat:
                    bad.append(f'{what}: {rr}')
        elif calls:
            bad.append('solver called although no probability is in (EPSILON, 1-EPSILON)')
        for i, k in enumerate(pattern):
            if k == 'zero' and not (r[i] == float('-inf')):
                bad.append(f'u <= EPSILON must give -inf, got {r[i]}')
            if k == 'one' and not (r[i] == float('inf')):
                bad.append(f'u >= 1-EPSILON must give +inf, got {r[i]}')
    return bad, len(paths), ex


def kde_ppf_errors():
    bad = []
    m = GaussianKDE()
    m.fit(np.array([0.0, 1.0, 2.0, 3.5, 5.0]))
    for U, what in ((np.array([[0.2, 0.3]]), '2-D input'), (np.array([0.2, 1.5]), 'value above 1'), (np.array([-0.1, 0.5]), 'value below 0')):
        try:
            m.percent_point(U)
            bad.append(f'{what} must raise ValueError')
        except ValueError:
            pass
        except Exception as e:
            bad.append(f'{what} raises {type(e).__name__}')
    return bad, 3, True


CASES = {}
for _f in FAMILIES:
    CASES[f'degenerate {_f}: point mass at c after fit and after from_dict(to_dict())'] = (degenerate, _f)
for _f in ('GaussianUnivariate', 'UniformUnivariate', 'BetaUnivariate', 'GammaUnivariate', 'StudentTUnivariate', 'LogLaplace',
           'TruncatedGaussian'):
    CASES[f'wiring {_f}: pdf/cdf/ppf/logpdf delegate to scipy with the fitted parameters; wrapper delegates to the instance'] = (wiring, _f)
for _n in (1, 2, 3):
    CASES[f'GaussianKDE CDF with {_n} data points: monotone, 0 at the lower bound, <= 1, derivative = kernel density, bounds'] = (kde_cdf, _n)
for _m in (None, 'bisect'):
    for _pat in (['valid', 'valid'], ['zero', 'valid'], ['valid', 'one'], ['zero', 'one']):
        CASES[f'GaussianKDE.percent_point(method={_m}) lanes {_pat}'] = (kde_ppf, _m, _pat)
CASES['GaussianKDE.percent_point rejects 2-D input and values outside [0,1]'] = (kde_ppf_errors,)


def task(name):
    t0 = time.time()
    try:
        f = CASES[name]
        bad, n, ex = f[0](*f[1:])
        return {'name': name, 'bad': bad[:3], 'paths': n, 'exhaustive': ex, 'secs': time.time() - t0}
    except BaseException:
        import traceback
        return {'name': name, 'error': traceback.format_exc()[-1500:]}


# ---------------------------------------------------------------- concrete replays / known findings

def concrete_degenerate(fam):
    warnings.simplefilter('ignore')
    cls, kw = FAMILIES[fam]
    for cval in (3.7, -0.1, 1e6 + 0.3):
        m = cls(**kw)
        m.fit(np.full(12, cval))
        for tag, mm in (('fit', m), ('round trip', type(m).from_dict(m.to_dict()))):
            below = np.nextafter(cval, -np.inf)
            cdf = np.asarray(mm.cdf(np.array([below, cval, np.nextafter(cval, np.inf)])), dtype=float)
            if not np.array_equal(cdf, [0.0, 1.0, 1.0]):
                return True, f'{fam} fitted on constant {cval!r} [{tag}]: cdf around c is {cdf.tolist()}, not the unit step at c (stored constant {getattr(mm, "_constant_value", None)!r})'
            if not np.all(np.asarray(mm.percent_point(np.array([0.2, 0.9]))) == cval) or not np.all(np.asarray(mm.sample(3)) == cval):
                return True, f'{fam} fitted on constant {cval!r} [{tag}]: percent_point/sample do not return c'
    return False, ''


NEAR_CONSTANT = [1e6 + 0.5 * np.arange(12), (1.0 + np.arange(12)) * 1e-9, 5.0 + 1e-7 * np.arange(12)]


def concrete_near_constant(fam):
    """non-constant data whose spread is small relative to its magnitude must not be modelled as a point mass"""
    warnings.simplefilter('ignore')
    for f_ in dict.fromkeys([fam, 'GaussianUnivariate', 'UniformUnivariate']):
        if f_ not in FAMILIES:
            continue
        cls, kw = FAMILIES[f_]
        for data in NEAR_CONSTANT:
            m = cls(**kw)
            try:
                m.fit(np.array(data, dtype=float))
                q = np.array([0.3, 0.6])
                back = np.asarray(m.cdf(np.asarray(m.percent_point(q), dtype=float)), dtype=float)
            except Exception:
                continue
            if not np.all(np.isfinite(back)):
                continue
            if getattr(m, '_constant_value', None) is not None or not np.allclose(back, q, atol=1e-3):
                return True, (f'{f_} fitted on 12 distinct values {data[0]!r} .. {data[-1]!r}: cdf(percent_point({q.tolist()})) = {back.tolist()} '
                              f'(stored constant {getattr(m, "_constant_value", None)!r})')
    return False, ''


def concrete_kde_tail():
    """known weakness of the truncated integration bounds: with a bandwidth factor near 1 the mass beyond
    [min - 5 std, max + 5 std] is not negligible"""
    warnings.simplefilter('ignore')
    out = []
    m = GaussianKDE(bw_method=1.0)
    m.fit(np.array([0.0, 1.0, 2.0, 3.0, 4.0]))
    v = float(m.cdf(np.array([-100.0]))[0])
    if v < 0:
        out.append(('kde-cdf-negative', f'GaussianKDE(bw_method=1.0) on [0,1,2,3,4]: cdf(-100) = {v:.3e} < 0'))
    try:
        m.percent_point(np.array([1 - 1e-6]))
    except AssertionError:
        out.append(('kde-ppf-bracket', 'GaussianKDE(bw_method=1.0) on [0,1,2,3,4]: percent_point(1 - 1e-6) raises AssertionError (upper bound is not a bracket end)'))
    return out


def replay(d):
    if d.get('kind') == 'degenerate':
        bad, detail = concrete_degenerate(d['fam'])
        print(detail)
        return bad
    if d.get('kind') == 'near-constant':
        bad, detail = concrete_near_constant(d['fam'])
        print(detail)
        return bad
    if d.get('kind') == 'kde-tail':
        r = dict(concrete_kde_tail())
        print(r.get(d['key']))
        return d['key'] in r
    bad, detail = concrete_violation()
    print(detail)
    return bad


def concrete_violation():
    warnings.simplefilter('ignore')
    from scipy import stats
    rs = np.random.RandomState(1)
    x = rs.gamma(3.0, 1.5, 300) + 2
    for fam, (cls, kw) in FAMILIES.items():
        m = cls(**kw)
        m.fit(x)
        g = np.linspace(x.min() - 2, x.max() + 2, 41)
        c = np.asarray(m.cdf(g), dtype=float)
        if np.any(np.diff(c) < -1e-9) or c.min() < -1e-6 or c.max() > 1 + 1e-9:
            return True, f'{fam}: cdf not monotone / outside [0,1] on a grid: min {c.min()}, max {c.max()}'
        q = np.array([0.05, 0.3, 0.5, 0.8, 0.97])
        pp = np.asarray(m.percent_point(q), dtype=float)
        if np.any(np.diff(pp) < 0) or not np.allclose(m.cdf(pp), q, atol=1e-6):
            return True, f'{fam}: percent_point does not invert the cdf: cdf(ppf(q)) = {np.asarray(m.cdf(pp))}'
        pd_ = np.asarray(m.pdf(g), dtype=float)
        if np.any(pd_ < 0) or not np.allclose(np.asarray(m.log_probability_density(g[10:30]), dtype=float), np.log(pd_[10:30]), rtol=1e-8, atol=1e-10):
            return True, f'{fam}: pdf negative or log_probability_density != log(pdf)'
    # vectors mixing boundary probabilities (-> -inf / +inf) with interior ones: every lane is solved as if it were alone
    kv = GaussianKDE()
    kv.fit(x[:80])
    for meth in ('chandrupatla', 'bisect'):
        for qv in ([0.0, 0.2, 0.5, 0.8], [0.3, 1.0, 0.6, 0.9], [1.0, 0.0, 0.4], [0.7, 0.1]):
            qv = np.array(qv)
            got = np.asarray(kv.percent_point(qv, method=meth), dtype=float)
            want = np.array([float(np.asarray(kv.percent_point(np.array([q_]), method=meth))[0]) for q_ in qv])
            if got.shape != want.shape or not np.allclose(got, want, rtol=1e-7, atol=1e-7, equal_nan=True):
                return True, f'GaussianKDE.percent_point({qv.tolist()}, method={meth!r}) = {got.tolist()}, lane by lane {want.tolist()}'
    # quantiles on a small data scale, with either root finder
    ks_ = GaussianKDE()
    ks_.fit(1e-9 * np.array([0.0, 1.0, 2.0, 3.0, 4.0, 7.0]))
    for meth in ('bisect', 'chandrupatla'):
        qq = np.array([0.1, 0.5, 0.9])
        back = np.asarray(ks_.cdf(ks_.percent_point(qq, method=meth)), dtype=float)
        if not np.allclose(back, qq, atol=1e-6):
            return True, f'GaussianKDE fitted on data of scale 1e-9: cdf(percent_point(q, method={meth!r})) = {back.tolist()} for q = {qq.tolist()}'
    # weighted kernel estimate: CDF increments = integral of the density
    from scipy import integrate
    xs = rs.normal(size=30)
    wts = rs.uniform(0.1, 3.0, size=30)
    wts[:5] *= 8
    k = GaussianKDE(weights=wts / wts.sum(), bw_method=0.6)
    k.fit(xs)
    for a_, b_ in ((-1.0, 0.0), (0.2, 1.5)):
        inc = float(k.cdf(np.array([b_]))[0] - k.cdf(np.array([a_]))[0])
        integ = integrate.quad(lambda t: float(k.pdf(np.array([t]))[0]), a_, b_)[0]
        if abs(inc - integ) > 1e-6:
            return True, f'weighted GaussianKDE: cdf({b_})-cdf({a_}) = {inc:.6f} but the density integrates to {integ:.6f}'
    return False, ''


def run(tier, seed):
    ck = Check('C03', tier, seed, 'proof',
               'symbolic execution of the degenerate-model code, the scipy delegation and the GaussianKDE CDF/quantile code with Phi as an '
               'uninterpreted monotone function; z3 decides each law')
    ck.encode(UB.Univariate._constant_cumulative_distribution, UB.Univariate._constant_probability_density, UB.Univariate._constant_percent_point,
              UB.Univariate._constant_sample, UB.ScipyModel.fit, UB.ScipyModel._set_params, UB.ScipyModel.cumulative_distribution,
              UB.ScipyModel.probability_density, UB.ScipyModel.percent_point, UB.ScipyModel.log_probability_density,
              GaussianKDE.cumulative_distribution, GaussianKDE._get_bounds, GaussianKDE.percent_point, GaussianKDE._set_params)
    ck.stubs = ['scipy.special.ndtr: uninterpreted Phi, non-decreasing into [0,1], derivative phi >= 0', 'scipy distributions: uninterpreted functions of (x, params)',
                'chandrupatla / bisect inside GaussianKDE.percent_point: recorders (their own behaviour is C18)']
    ck.bounds = {'KDE data points': '1..3', 'evaluation batch': '<= 3', 'weights': 'any w_i >= 0 with sum 1', 'bandwidth': 'any s^2 > 0',
                 'constant c, query points': 'unconstrained reals'}
    ck.outside = ['the laws of scipy\'s own distributions (monotone cdf, ppf inverse, pdf integrates to cdf)', 'numerical integration of the density',
                  'limits at +-infinity (only the bounds cdf(lower)=0, cdf<=1 are shown)',
                  'upper-end bracket validity of the KDE quantile and cdf >= 0 below the lower bound: see known findings']
    ck.assumptions = ['Phi monotone with values in [0,1]; exact real arithmetic']
    for r in pool_map(task, list(CASES)):
        if r.get('error'):
            ck.inconcl(f"{r['name']}: harness error {r['error']}")
            continue
        if not r['exhaustive']:
            ck.inconcl(f"{r['name']}: not exhaustive")
        ck.paths += r['paths']
        ck.ob(r['name'], 'unsat' if not r['bad'] else 'sat', r['secs'], queries=r['paths'])
        if r['bad']:
            nm = r['name']
            done = False
            if nm.startswith('degenerate'):
                fam = nm.split(' ')[1].rstrip(':')
                b, detail = concrete_degenerate(fam)
                if b:
                    ck.violation(f'degenerate:{fam.split("(")[0]}', f'{nm}: {r["bad"][0]} -- {detail}', {'kind': 'degenerate', 'fam': fam})
                    done = True
            if not done:
                b, detail = concrete_violation()
                if b:
                    ck.violation(nm.split(':')[0][:50], f'{nm}: {r["bad"][0]} -- {detail}', {})
                    done = True
            if not done and nm.startswith('wiring'):
                fam = nm.split(' ')[1].rstrip(':')
                b, detail = concrete_near_constant(fam)
                if b:
                    ck.violation(f'near-constant:{fam}', f'{nm}: {r["bad"][0]} -- {detail}', {'kind': 'near-constant', 'fam': fam})
                    done = True
            if not done:
                ck.inconcl(f'{nm}: {r["bad"]}; not reproduced on the real code')
    # known weaknesses of the truncated integration bounds: decided symbolically as "not provable", replayed here
    for key, what in concrete_kde_tail():
        ck.violation(key, what, {'kind': 'kde-tail', 'key': key})
    n = 0
    for fam in FAMILIES:
        n += 1
        b, detail = concrete_degenerate(fam)
        if b:
            ck.violation(f'degenerate:{fam.split("(")[0]}', detail, {'kind': 'degenerate', 'fam': fam})
    b, detail = concrete_violation()
    ck.traces_validated = n + len(FAMILIES)
    if b:
        ck.violation('conformance', detail, {})
    return ck.finish()
