"""C19 - model lifecycle: fit is a pure function of its inputs; misuse fails loudly.

(a) two-fit histories: for symbolic datasets A and B (each possibly constant) the state of
    fresh.fit(A).fit(B) equals the state of fresh.fit(B) - real control flow of every univariate
    family, scipy estimators as uninterpreted functions of the data;
(b) uninitialised memory: np.empty is havoc; no stored value or decision of a fitted vine may
    mention a havoc symbol;
(c) unfitted models raise NotFittedError; invalid tables raise ValueError and leave the model
    unfitted; get_instance returns a fresh, unfitted, equally configured object."""
import itertools
import time
import warnings

import numpy as np
import pandas as pd
import z3

import copulas.univariate.base as UB
import copulas.univariate.beta as M_BETA
import copulas.univariate.gamma as M_GAMMA
import copulas.univariate.gaussian as M_GAUSS
import copulas.univariate.gaussian_kde as M_KDE
import copulas.univariate.log_laplace as M_LL
import copulas.univariate.student_t as M_T
import copulas.univariate.truncated_gaussian as M_TG
import copulas.univariate.uniform as M_UNI
import copulas.utils as UT
from copulas.errors import NotFittedError
from copulas.multivariate import GaussianMultivariate, VineCopula
from copulas.univariate import (BetaUnivariate, GammaUnivariate, GaussianKDE, GaussianUnivariate, LogLaplace,
                                StudentTUnivariate, TruncatedGaussian, UniformUnivariate, Univariate)
from copulas.utils import get_instance

from symx.core import Ctx, SymReal, explore, model_value, objarr, sym, symarr, tz
from symx.report import Check
from symx.rng import RNGModel
from symx.shim import NPShim, ns, patched, patched_many, uses_havoc
from .copsuite import pool_map

R = z3.RealSort()


def uf_of(name, k, args):
    f = z3.Function(f'{name}_{k}_{len(args)}', *([R] * (len(args) + 1)))
    return SymReal(f(*[tz(a) for a in args]))


class FitStub:
    """scipy.stats.<dist>: fit(X, ...) returns parameters that are uninterpreted functions of the data
    (and of the keyword arguments), in scipy's documented order"""

    def __init__(self, name, nparams):
        self.name = name
        self.nparams = nparams

    def fit(self, X, *a, **k):
        xs = list(np.asarray(X, dtype=object).flat)
        extra = [k[key] for key in sorted(k)]
        out = tuple(uf_of(self.name + '_fit', i, xs + extra) for i in range(self.nparams))
        if Ctx.cur is not None:
            Ctx.cur.assume(out[-1].t > 0)        # scipy returns a positive scale
        return out

    def _ev(self, kind, X, *a, **p):
        X = np.asarray(X, dtype=object)
        keys = sorted(p)
        out = np.empty(X.shape, dtype=object)
        for idx in np.ndindex(*X.shape):
            out[idx] = uf_of(f'{self.name}_{kind}_' + '_'.join(keys), 0, [X[idx]] + [p[k_] for k_ in keys])
        return out

    def cdf(self, X, **p): return self._ev('cdf', X, **p)
    def pdf(self, X, **p): return self._ev('pdf', X, **p)
    def ppf(self, X, **p): return self._ev('ppf', X, **p)

    def nnlf(self, params, X):
        return uf_of(self.name + '_nnlf', 0, list(params) + list(np.asarray(X, dtype=object).flat))


class SLSQPStub:
    """fmin_slsqp(func, x0, bounds=...): a point inside the bounds that is a function of the data
    the objective closes over (observed through x0) and of the bounds it was given"""

    def __call__(self, func, x0, **k):
        b = k.get('bounds') or [(None, None), (None, None)]
        flat = [b[0][0], b[0][1], b[1][0], b[1][1]]
        args = list(x0) + [(-12345.0 if v is None else v) for v in flat]
        Ctx.cur.log.append(('slsqp', b))
        loc, scale = uf_of('slsqp', 0, args), uf_of('slsqp', 1, args)
        cons = []
        if b[0][0] is not None:
            cons.append(loc.t >= tz(b[0][0]))
        if b[0][1] is not None:
            cons.append(loc.t <= tz(b[0][1]))
        if b[1][0] is not None:
            cons.append(scale.t >= tz(b[1][0]))
        if b[1][1] is not None:
            cons.append(scale.t <= tz(b[1][1]))
        # the likelihood is +inf at scale = 0: the optimiser never returns the bound itself
        cons.append(scale.t != 0)
        Ctx.cur.assume(*cons)
        return objarr([loc, scale])


class KDEStub:
    """scipy.stats.gaussian_kde(dataset, bw_method, weights)"""
    rng = None

    def __init__(self, dataset, bw_method=None, weights=None):
        self.dataset = np.asarray(dataset, dtype=object)
        self.bw_method = bw_method
        self.weights = weights

    def resample(self, size=None, seed=None):
        vals = KDEStub.rng.glob._draw('kde.resample', int(size), tuple(self.dataset.flat))
        return objarr(vals)

    def evaluate(self, X):
        return np.asarray(X, dtype=object)


FAMILIES = {
    'GaussianUnivariate': (GaussianUnivariate, {}),
    'UniformUnivariate': (UniformUnivariate, {}),
    'BetaUnivariate': (BetaUnivariate, {}),
    'GammaUnivariate': (GammaUnivariate, {}),
    'StudentTUnivariate': (StudentTUnivariate, {}),
    'LogLaplace': (LogLaplace, {}),
    'TruncatedGaussian': (TruncatedGaussian, {}),
    'TruncatedGaussian(minimum,maximum)': (TruncatedGaussian, {'minimum': -100.0, 'maximum': 100.0}),
    'GaussianKDE': (GaussianKDE, {}),
    'GaussianKDE(bw_method=0.5)': (GaussianKDE, {'bw_method': 0.5}),
}


def uni_patches(rng):
    sh = NPShim(havoc_empty=True, random=rng)
    KDEStub.rng = rng
    specs = [(UB, dict(np=sh)), (UT, dict(np=NPShim(havoc_empty=False, random=rng))),
             (M_GAUSS, dict(np=sh)), (M_UNI, dict(np=sh)),
             (M_BETA, dict(np=sh, beta=FitStub('beta', 4))), (M_GAMMA, dict(np=sh, gamma=FitStub('gamma', 3))),
             (M_T, dict(t=FitStub('t', 3))), (M_LL, dict(np=sh, loglaplace=FitStub('loglaplace', 3))),
             (M_TG, dict(np=sh, fmin_slsqp=SLSQPStub(), truncnorm=FitStub('truncnorm', 4))),
             (M_KDE, dict(np=sh, gaussian_kde=KDEStub))]
    return patched_many(*specs)


def state_of(m):
    """observable state: instance dict with symbolic leaves; method overrides by function name"""
    out = {}
    constant = 'cumulative_distribution' in vars(m)
    for k, v in sorted(vars(m).items()):
        if k == '_model' and constant:
            continue      # a kernel model left over from an earlier fit is not observable on a degenerate model
        if k == '_sample_size':
            continue      # cache of the last dataset length (not read by any fit/query any more; a dependence on it shows in `_params`)
        if k in ('__args__', '__kwargs__'):
            out[k] = repr(v)
            continue
        out[k] = leaf(v)
    return out


def leaf(v):
    import types
    if isinstance(v, types.MethodType):
        return ('method', v.__func__.__name__)
    if isinstance(v, SymReal):
        return ('sym', v.t)
    if isinstance(v, dict):
        return ('dict', tuple((k, leaf(x)) for k, x in sorted(v.items())))
    if isinstance(v, (list, tuple)):
        return ('list', tuple(leaf(x) for x in v))
    if isinstance(v, np.ndarray):
        return ('list', tuple(leaf(x) for x in v.flat))
    if isinstance(v, KDEStub):
        return ('kde', leaf(list(v.dataset.flat)), repr(v.bw_method), repr(v.weights))
    if isinstance(v, (float, np.floating)) and v != v:
        return ('nan',)
    if isinstance(v, (int, float, np.integer, np.floating, str, bool, type(None))):
        return ('val', v if not isinstance(v, (np.integer, np.floating)) else v.item())
    return ('obj', type(v).__name__)


def diff_state(a, b, solver):
    """list of differences between two states (solver equality on symbolic leaves)"""
    diffs = []

    def cmp(x, y, path):
        if x[0] == 'sym' or y[0] == 'sym':
            tx = x[1] if x[0] == 'sym' else (z3.RealVal(str(x[1])) if x[0] == 'val' and isinstance(x[1], (int, float)) and not isinstance(x[1], bool) else None)
            ty = y[1] if y[0] == 'sym' else (z3.RealVal(str(y[1])) if y[0] == 'val' and isinstance(y[1], (int, float)) and not isinstance(y[1], bool) else None)
            if tx is None or ty is None:
                diffs.append(f'{path}: {x[0]} vs {y[0]}')
                return
            if tx.eq(ty):
                return
            solver.push()
            solver.add(tx != ty)
            r = solver.check()
            solver.pop()
            if r != z3.unsat:
                diffs.append(f'{path}: values differ')
            return
        if x[0] != y[0]:
            diffs.append(f'{path}: {x[0]} vs {y[0]}')
            return
        if x[0] in ('dict',):
            kx, ky = [k for k, _ in x[1]], [k for k, _ in y[1]]
            if kx != ky:
                diffs.append(f'{path}: keys {kx} vs {ky}')
                return
            for (k, vx), (_, vy) in zip(x[1], y[1]):
                cmp(vx, vy, f'{path}.{k}')
        elif x[0] == 'list':
            if len(x[1]) != len(y[1]):
                diffs.append(f'{path}: length {len(x[1])} vs {len(y[1])}')
                return
            for i, (vx, vy) in enumerate(zip(x[1], y[1])):
                cmp(vx, vy, f'{path}[{i}]')
        elif x[0] == 'kde':
            cmp(x[1], y[1], path + '.dataset')
            if x[2:] != y[2:]:
                diffs.append(f'{path}: kde options differ')
        elif x != y:
            diffs.append(f'{path}: {x[1:]} vs {y[1:]}')
    ka, kb = set(a), set(b)
    for k in sorted(ka ^ kb):
        diffs.append(f'attribute {k} present in only one of the two models')
    for k in sorted(ka & kb):
        cmp(a[k], b[k], k)
    return diffs


def two_fit(fam, na, nb):
    cls, kw = FAMILIES[fam]
    A = [sym(f'a{i}') for i in range(na)]
    B = [sym(f'b{i}') for i in range(nb)]

    def fn(ctx):
        rng = RNGModel()
        with uni_patches(rng):
            m1 = cls(**kw)
            m1.fit(objarr(A))
            m1.fit(objarr(B))
            m2 = cls(**kw)
            m2.fit(objarr(B))
            s1, s2 = state_of(m1), state_of(m2)
        return s1, s2
    paths, ex, _ = explore(fn, max_paths=5000, tlimit=200)
    res = []
    fails = []
    for p in paths:
        if p.status != 'ok':
            fails.append({'what': f'{p.status}: {type(p.exc).__name__}: {str(p.exc)[:100]}', 'A': None, 'B': None})
            continue
        s = z3.Solver()
        s.set('timeout', 20000)
        s.add(*p.ctx.pc)
        d = diff_state(p.value[0], p.value[1], s)
        if d:
            mA = mB = None
            if s.check() == z3.sat:
                m = s.model()
                mA = [model_value(m, x.t) for x in A]
                mB = [model_value(m, x.t) for x in B]
            fails.append({'what': '; '.join(d[:3]), 'A': mA, 'B': mB})
    return {'fam': fam, 'na': na, 'nb': nb, 'paths': len(paths), 'exhaustive': ex, 'fails': fails[:6], 'nfails': len(fails)}


# ---------------------------------------------------------------- concrete side

def concrete_refit_violation(fam, A=None, B=None):
    """real code: is the model refitted on B observably different from a fresh model fitted on B?"""
    warnings.simplefilter('ignore')
    cls, kw = FAMILIES[fam]
    rs = np.random.RandomState(0)
    sets = []
    if A is not None and B is not None and len(set(B)) > 1 or (A is not None and B is not None):
        sets.append((np.array(A, dtype=float), np.array(B, dtype=float)))
    sets += [(np.full(30, 5.0), rs.normal(2.0, 1.5, size=60)), (rs.uniform(0, 4, size=5), rs.uniform(0, 49, size=50)),
             (rs.normal(size=40), np.full(20, 3.0)), (rs.gamma(2.0, size=50) + 1, rs.gamma(5.0, size=80) + 3)]
    for A_, B_ in sets:
        try:
            np.random.seed(3)
            m1 = cls(**kw)
            m1.fit(A_)
            m1.fit(B_)
            np.random.seed(3)
            m2 = cls(**kw)
            m2.fit(B_)
            q = np.linspace(B_.min() - 1, B_.max() + 1, 7)
            c1, c2 = np.asarray(m1.cdf(q), dtype=float), np.asarray(m2.cdf(q), dtype=float)
            d1, d2 = m1.to_dict(), m2.to_dict()
        except Exception as e:
            return True, f'{fam}: refit/fresh raises {type(e).__name__}: {e}', (A_.tolist(), B_.tolist())
        if not np.allclose(c1, c2, rtol=1e-6, atol=1e-9, equal_nan=True):
            return True, f'{fam}: fit(A).fit(B) and fit(B) give different CDFs at {q[2]:.3f}: {c1[2]:.6f} vs {c2[2]:.6f} (A={np.round(A_[:3], 3).tolist()}.., B={np.round(B_[:3], 3).tolist()}..)', (A_.tolist(), B_.tolist())
        if repr(_round(d1)) != repr(_round(d2)):
            return True, f'{fam}: to_dict differs after refit: {str(_round(d1))[:120]} vs {str(_round(d2))[:120]}', (A_.tolist(), B_.tolist())
    return False, '', None


def _round(d):
    if isinstance(d, dict):
        return {k: _round(v) for k, v in sorted(d.items())}
    if isinstance(d, (list, tuple)):
        return [_round(v) for v in d]
    if isinstance(d, (float, np.floating)):
        return float(np.round(d, 6))
    return d


def misuse_checks():
    """concrete part (no quantifier left once the model is unfitted / the table invalid)"""
    warnings.simplefilter('ignore')
    res = []
    X = np.array([0.5, 1.0])
    unfitted = [('GaussianUnivariate', GaussianUnivariate), ('BetaUnivariate', BetaUnivariate), ('GammaUnivariate', GammaUnivariate),
                ('UniformUnivariate', UniformUnivariate), ('StudentTUnivariate', StudentTUnivariate), ('LogLaplace', LogLaplace),
                ('TruncatedGaussian', TruncatedGaussian), ('GaussianKDE', GaussianKDE), ('Univariate', Univariate)]
    for nm, cls in unfitted:
        for meth, arg in (('probability_density', X), ('cumulative_distribution', X), ('percent_point', X), ('sample', 2),
                          ('log_probability_density', X), ('to_dict', None)):
            m = cls()
            try:
                getattr(m, meth)(*([] if arg is None else [arg]))
                res.append((f'unfitted {nm}.{meth}', 'no error'))
            except NotFittedError:
                res.append((f'unfitted {nm}.{meth}', 'ok'))
            except Exception as e:
                res.append((f'unfitted {nm}.{meth}', f'{type(e).__name__}: {e}'))
    from copulas.bivariate import Clayton, Frank, Gumbel
    for cls in (Clayton, Frank, Gumbel):
        for meth, args in (('probability_density', [np.array([[.2, .3]])]), ('cumulative_distribution', [np.array([[.2, .3]])]),
                           ('partial_derivative', [np.array([[.2, .3]])]), ('percent_point', [np.array([.2]), np.array([.3])]), ('sample', [2])):
            m = cls()
            try:
                getattr(m, meth)(*args)
                res.append((f'unfitted {cls.__name__}.{meth}', 'no error'))
            except NotFittedError:
                res.append((f'unfitted {cls.__name__}.{meth}', 'ok'))
            except Exception as e:
                res.append((f'unfitted {cls.__name__}.{meth}', f'{type(e).__name__}: {e}'))
    for nm, mk in (('GaussianMultivariate', lambda: GaussianMultivariate()), ('VineCopula', lambda: VineCopula('regular'))):
        meths = [('sample', [2])]
        if nm == 'GaussianMultivariate':
            meths += [('probability_density', [np.zeros((1, 2))]), ('cumulative_distribution', [np.zeros((1, 2))]), ('to_dict', [])]
        else:
            meths += [('get_likelihood', [np.array([[.2, .3]])])]
        for meth, args in meths:
            m = mk()
            try:
                getattr(m, meth)(*args)
                res.append((f'unfitted {nm}.{meth}', 'no error'))
            except NotFittedError:
                res.append((f'unfitted {nm}.{meth}', 'ok'))
            except Exception as e:
                res.append((f'unfitted {nm}.{meth}', f'{type(e).__name__}: {e}'))
        bad_tables = {'empty': pd.DataFrame({'a': [], 'b': []}), 'rows but no columns': pd.DataFrame(index=range(3)), 'non-numeric': pd.DataFrame({'a': ['x', 'y', 'z'], 'b': [1.0, 2.0, 3.0]}),
                      'boolean column': pd.DataFrame({'a': [True, False, True, True], 'b': [1.0, 2.0, 3.0, 0.5]}),
                      'numbers stored as text': pd.DataFrame({'a': ['1.5', '2.5', '0.1', '3.0'], 'b': [1.0, 2.0, 3.0, 0.5]}),
                      'datetime column': pd.DataFrame({'a': pd.to_datetime(['2020-01-01', '2020-02-01', '2020-03-05', '2021-01-01']), 'b': [1.0, 2.0, 3.0, 0.5]}),
                      'NaN': pd.DataFrame({'a': [1.0, np.nan, 3.0], 'b': [1.0, 2.0, 4.0]})}
        for tn, t in bad_tables.items():
            m = mk()
            try:
                m.fit(t)
                res.append((f'{nm}.fit({tn} table)', 'accepted'))
            except ValueError:
                res.append((f'{nm}.fit({tn} table)', 'ok' if not m.fitted else 'ValueError but fitted=True'))
            except Exception as e:
                res.append((f'{nm}.fit({tn} table)', f'{type(e).__name__}: {e}'))
    # get_instance
    protos = [('name', 'copulas.univariate.GaussianKDE', GaussianKDE, {}),
              ('class', TruncatedGaussian, TruncatedGaussian, {}),
              ('KDE instance with options', GaussianKDE(sample_size=7, bw_method='silverman'), GaussianKDE, {'_sample_size': 7, 'bw_method': 'silverman'}),
              ('fitted KDE instance', _fitted(GaussianKDE(bw_method=0.4)), GaussianKDE, {'_sample_size': None, 'bw_method': 0.4}),
              ('TruncatedGaussian instance with bounds', TruncatedGaussian(minimum=-3, maximum=8), TruncatedGaussian, {'min': -3, 'max': 8}),
              ('fitted TruncatedGaussian without bounds', _fitted(TruncatedGaussian()), TruncatedGaussian, {'min': None, 'max': None}),
              ('Univariate with filters', Univariate(parametric=UB.ParametricType.PARAMETRIC, bounded=UB.BoundedType.BOUNDED), Univariate, None),
              ('Univariate with positional candidate list', Univariate([GaussianUnivariate, UniformUnivariate]), Univariate, None),
              ('Univariate with positional filters', Univariate(None, UB.ParametricType.PARAMETRIC, UB.BoundedType.BOUNDED), Univariate, None),
              ('TruncatedGaussian with positional bounds', TruncatedGaussian(-50, 50), TruncatedGaussian, {'min': -50, 'max': 50}),
              ('TruncatedGaussian with a zero bound', TruncatedGaussian(minimum=0, maximum=10), TruncatedGaussian, {'min': 0, 'max': 10}),
              ('GaussianKDE with positional sample_size', GaussianKDE(25), GaussianKDE, {'_sample_size': 25}),
              ('GaussianKDE with weights', GaussianKDE(weights=np.array([0.2, 0.8]), bw_method=0.3), GaussianKDE, {'bw_method': 0.3}),
              ('fitted Univariate with candidates', _fitted(Univariate(candidates=[GaussianUnivariate])), Univariate, None)]
    for nm, proto, cls, attrs in protos:
        try:
            n = get_instance(proto)
            ok = type(n) is cls and n is not proto and not n.fitted
            if attrs:
                ok = ok and all(getattr(n, k) == v for k, v in attrs.items())
            if isinstance(proto, Univariate) and type(proto) is Univariate:
                ok = ok and n.candidates == proto.candidates and n._instance is None
            res.append((f'get_instance({nm})', 'ok' if ok else f'wrong object: {type(n).__name__} fitted={n.fitted} {vars(n)}'[:160]))
        except Exception as e:
            res.append((f'get_instance({nm})', f'{type(e).__name__}: {e}'))
    return res


def _fitted(m):
    m.fit(np.random.RandomState(1).normal(size=40))
    return m


def havoc_in_vine(d, tree_type):
    """uninitialised memory: does any stored value or decision of a fitted vine mention np.empty contents?"""
    from .c16 import harness
    paths, ex, _ = explore(harness(d, tree_type, d), max_paths=3000, tlimit=200)
    dec = out = 0
    for p in paths:
        if p.status != 'ok':
            continue
        if any(uses_havoc(c) for c in p.ctx.pc):
            dec += 1
        v = p.value['vine']
        for t in v.trees:
            for e in t.edges:
                if isinstance(e.tau, SymReal) and uses_havoc(e.tau.t):
                    out += 1
            if isinstance(t.tau_matrix, np.ndarray) and t.tau_matrix.dtype == object:
                for x in t.tau_matrix.flat:
                    if isinstance(x, SymReal) and uses_havoc(x.t):
                        out += 1
    return {'d': d, 'type': tree_type, 'paths': len(paths), 'exhaustive': ex, 'decisions': dec, 'stored': out}


def concrete_havoc(tree_type, d=4):
    """real code: a fitted vine's serialised form must not change when the allocator's garbage changes"""
    warnings.simplefilter('ignore')
    import copulas.multivariate.tree as TR
    rs = np.random.RandomState(5)
    A = rs.normal(size=(d, d))
    X = pd.DataFrame(rs.multivariate_normal(np.zeros(d), A @ A.T + np.eye(d), size=120), columns=[f'v{i}' for i in range(d)])
    outs = []
    real_empty = np.empty
    for fill in (123.456, -7.0):
        def junk(shape, *a, **k):
            arr = real_empty(shape, *a, **k)
            if arr.dtype.kind == 'f':
                arr[...] = fill
            return arr
        TR.np.empty = junk
        try:
            v = VineCopula(tree_type)
            v.fit(X, truncated=d)
            outs.append(repr([[(e.L, e.R, sorted(e.D), float(np.round(e.tau, 9)) if e.tau is not None else None) for e in t.edges] for t in v.trees])
                        + repr([np.round(np.asarray(t.tau_matrix, dtype=float), 9).tolist() for t in v.trees]))
        finally:
            TR.np.empty = real_empty
    return outs[0] != outs[1], f'{tree_type} vine on {d} columns: fitted edges / stored tau matrices differ when np.empty returns different garbage'


class KDEUniStub:
    """stands for GaussianKDE inside the vine module: records its training column"""

    def __init__(self, *a, **k):
        self.data = None
        self.fitted = False

    def fit(self, X):
        self.data = list(np.asarray(X, dtype=object).flat)
        self.fitted = True

    def cumulative_distribution(self, X):
        X = np.asarray(X, dtype=object)
        return objarr([uf_of('kdecdf', 0, [x] + self.data) for x in X.flat])

    def percent_point(self, U):
        return np.asarray(U, dtype=object)

    def to_dict(self):
        return {'type': 'stub', 'dataset': list(self.data)}


def vine_state(v):
    return {'fitted': leaf(bool(v.fitted)), 'n_var': leaf(v.n_var), 'n_sample': leaf(v.n_sample), 'columns': leaf(list(v.columns)),
            'trees': leaf([[(e.L, e.R, sorted(e.D), str(e.name), e.theta, e.tau) for e in t.edges] for t in v.trees]),
            'unis': leaf([u.data for u in v.unis]), 'u_matrix': leaf(v.u_matrix), 'tau_mat': leaf(np.asarray(v.tau_mat, dtype=object))}


def vine_two_fit(tree_type, d=2):
    """VineCopula: fit(A).fit(B) == fit(B) (symbolic tables, stubbed marginals / pair copulas / Kendall matrix)"""
    import copulas.multivariate.tree as TR
    import copulas.multivariate.vine as VN
    from .c17 import LBiv
    from . import stubs

    def kendall_corr(self, method='pearson', **k):
        A_ = self.to_numpy()
        dd = A_.shape[1]
        M = np.empty((dd, dd), dtype=object)
        for i in range(dd):
            for j in range(dd):
                M[i, j] = 1.0 if i == j else uf_of('ktau', 0, list(A_[:, min(i, j)]) + list(A_[:, max(i, j)]))
        for i in range(dd):
            for j in range(i + 1, dd):
                Ctx.cur.assume(tz(M[i, j]) >= -1, tz(M[i, j]) <= 1)
        return pd.DataFrame(M)

    def fn(ctx):
        rng = RNGModel()
        LBiv.reset()
        A = pd.DataFrame(objarr([[sym(f'a{r}{c}') for c in range(d)] for r in range(2)]), columns=[f'v{c}' for c in range(d)])
        B = pd.DataFrame(objarr([[sym(f'b{r}{c}') for c in range(d)] for r in range(2)]), columns=[f'v{c}' for c in range(d)])
        sh = NPShim(havoc_empty=True, force_obj=True, random=rng)
        kt = stubs.KendallStub('kt', check_const=False)
        with warnings.catch_warnings():
            warnings.simplefilter('ignore')
            with patched(TR, np=sh, Bivariate=LBiv, scipy=ns(stats=ns(kendalltau=kt))), patched(VN, np=sh, Bivariate=LBiv, GaussianKDE=KDEUniStub), \
                    patched(UT, np=NPShim(havoc_empty=False, random=rng)), patched(pd.DataFrame, corr=kendall_corr):
                m1 = VineCopula(tree_type)
                m1.fit(A)
                LBiv.n = 0
                m1.fit(B)
                LBiv.n = 0
                m2 = VineCopula(tree_type)
                m2.fit(B)
                s1, s2 = vine_state(m1), vine_state(m2)
        return s1, s2
    paths, ex, _ = explore(fn, max_paths=3000, tlimit=200)
    fails = []
    for p in paths:
        if p.status != 'ok':
            fails.append({'what': f'{p.status}: {type(p.exc).__name__}: {str(p.exc)[:120]}', 'A': None, 'B': None})
            continue
        s = z3.Solver()
        s.set('timeout', 20000)
        s.add(*p.ctx.pc)
        dd = diff_state(p.value[0], p.value[1], s)
        if dd:
            fails.append({'what': '; '.join(dd[:3]), 'A': None, 'B': None})
    return {'fam': f'VineCopula({tree_type!r})', 'na': 2, 'nb': 2, 'paths': len(paths), 'exhaustive': ex, 'fails': fails[:4], 'nfails': len(fails)}


def gm_two_fit():
    """GaussianMultivariate: fit(A).fit(B) == fit(B)"""
    from . import gm
    import copulas.multivariate.gaussian as G

    def fn(ctx):
        rng = RNGModel()
        gm.StubDist.COLIDX = {'c': 0, 'a': 1}
        gm.StubDist.FITS = []
        gm.StubDist.RAISE_ON = set()
        A = pd.DataFrame(objarr([[sym(f'a{r}{c}') for c in range(2)] for r in range(2)]), columns=['c', 'a'])
        B = pd.DataFrame(objarr([[sym(f'b{r}{c}') for c in range(2)] for r in range(2)]), columns=['c', 'a'])
        cs = gm.CorrStub()

        def st(m):
            return {'columns': leaf(list(m.columns)), 'unis': leaf([type(u).__name__ for u in m.univariates]),
                    'fitted': leaf(bool(m.fitted)), 'corr_labels': leaf(list(m.correlation.index) + list(m.correlation.columns)),
                    'corr_shape': leaf(list(m.correlation.shape))}
        mvn = gm.MVNRecorder()
        q = pd.DataFrame(objarr([[sym('q0'), sym('q1')]]), columns=['c', 'a'])
        with gm.gm_patches(rng=rng, mvn=mvn), patched(pd.DataFrame, corr=lambda self, *a, **k: cs(self, *a, **k)):
            m1 = GaussianMultivariate(distribution=gm.StubDist)
            m1.fit(A)
            m1.probability_density(q)            # queries between the two fits must not leave anything behind
            m1.cumulative_distribution(q)
            m1.fit(B)
            n1 = len(gm.StubDist.FITS)
            m2 = GaussianMultivariate(distribution=gm.StubDist)
            m2.fit(B)
            k0 = len(mvn.calls)
            m1.probability_density(q)
            m1.cumulative_distribution(q)
            k1 = len(mvn.calls)
            m2.probability_density(q)
            m2.cumulative_distribution(q)
            c1_, c2_ = mvn.calls[k0:k1], mvn.calls[k1:]

            def callsig(cs_):
                out = []
                for (kind, x, a_, kw_) in cs_:
                    cov = kw_.get('cov', a_[-1] if a_ else None)
                    out.append((kind, list(np.asarray(x, dtype=object).flat), list(np.asarray(getattr(cov, 'to_numpy', lambda: cov)(), dtype=object).flat)))
                return out
            fits = gm.StubDist.FITS
            ok_fit = all(tz(x).eq(tz(y)) for f1, f2 in zip(fits[n1 - 2:n1], fits[n1:]) for x, y in zip(f1[2], f2[2]))
            s1, s2 = st(m1), st(m2)
            s1['marginals_fitted_on_B'] = leaf(ok_fit)
            s2['marginals_fitted_on_B'] = leaf(True)
            s1['density_queries'] = leaf(callsig(c1_))
            s2['density_queries'] = leaf(callsig(c2_))
        return s1, s2
    paths, ex, _ = explore(fn, max_paths=3000, tlimit=120)
    fails = []
    for p in paths:
        if p.status != 'ok':
            fails.append({'what': f'{p.status}: {type(p.exc).__name__}: {str(p.exc)[:120]}', 'A': None, 'B': None})
            continue
        s = z3.Solver()
        s.add(*p.ctx.pc)
        dd = diff_state(p.value[0], p.value[1], s)
        if dd:
            fails.append({'what': '; '.join(dd[:3]), 'A': None, 'B': None})
    return {'fam': 'GaussianMultivariate', 'na': 2, 'nb': 2, 'paths': len(paths), 'exhaustive': ex, 'fails': fails[:4], 'nfails': len(fails)}


def concrete_wrapper_refit():
    """the selecting Univariate wrapper: fit(A).fit(B) models B exactly like a fresh wrapper, for varying -> constant,
    constant -> varying and varying -> varying histories"""
    warnings.simplefilter('ignore')
    rs = np.random.RandomState(8)
    sets = {'gamma-like': rs.gamma(2.0, 2.0, 200) + 1.0, 'constant': np.full(30, 4.0), 'uniform-like': rs.uniform(-3, 2, 200),
            'normal-like': rs.normal(10, 2, 200)}
    for a_, b_ in (('gamma-like', 'constant'), ('constant', 'gamma-like'), ('gamma-like', 'uniform-like'), ('uniform-like', 'normal-like'),
                   ('normal-like', 'constant')):
        m = Univariate()
        m.fit(sets[a_])
        m.fit(sets[b_])
        f = Univariate()
        f.fit(sets[b_])
        if repr(_round(m.to_dict())) != repr(_round(f.to_dict())):
            return True, (f'Univariate(): after fit({a_} data) and fit({b_} data) to_dict() is {_round(m.to_dict())}, '
                          f'a fresh wrapper fitted on the {b_} data gives {_round(f.to_dict())}')
    return False, ''


def concrete_multi_refit(which):
    warnings.simplefilter('ignore')
    rs = np.random.RandomState(3)
    A = pd.DataFrame(rs.multivariate_normal([0, 0, 0], [[1, .7, .2], [.7, 1, .1], [.2, .1, 1]], 120), columns=list('xyz'))
    B = pd.DataFrame(rs.multivariate_normal([5, 1, 2], [[2, -.9, .3], [-.9, 1, .0], [.3, .0, 1]], 150), columns=list('xyz'))
    if which.startswith('Vine'):
        for t in ('center', 'direct', 'regular'):
            m1 = VineCopula(t)
            m1.fit(A)
            m1.fit(B)
            m2 = VineCopula(t)
            m2.fit(B)
            if len(m1.trees) != len(m2.trees):
                return True, f'VineCopula({t!r}): {len(m1.trees)} trees after fit(A).fit(B), {len(m2.trees)} after fit(B)'
            u = np.array([[.3, .6, .5]])
            a, b = m1.get_likelihood(u), m2.get_likelihood(u)
            if not (np.isclose(a, b) or (a != a and b != b)):
                return True, f'VineCopula({t!r}): likelihood {a} after a refit vs {b} for a fresh fit'
            # an earlier fit with another truncation level must not influence a later plain fit
            m3 = VineCopula(t)
            m3.fit(A, truncated=1)
            m3.fit(B)
            if len(m3.trees) != len(m2.trees) or m3.truncated != m2.truncated:
                return True, (f'VineCopula({t!r}): fit(A, truncated=1) followed by fit(B) gives {len(m3.trees)} trees (truncated={m3.truncated}); '
                              f'a fresh fit(B) gives {len(m2.trees)} (truncated={m2.truncated})')
        return False, ''
    from copulas.univariate import GaussianUnivariate as GU
    m1 = GaussianMultivariate(distribution=GU)
    m1.fit(A)
    m1.probability_density(A.iloc[:2])
    m1.cumulative_distribution(A.iloc[:2])
    m1.sample(2)
    m1.fit(B)
    m2 = GaussianMultivariate(distribution=GU)
    m2.fit(B)
    qs = B.iloc[:3]
    if not np.allclose(m1.probability_density(qs), m2.probability_density(qs), rtol=1e-9) or \
            not np.allclose(m1.log_probability_density(qs), m2.log_probability_density(qs), rtol=1e-9):
        return True, 'GaussianMultivariate: density after fit(A), queries, fit(B) differs from the density of a fresh fit(B)'
    if not np.allclose(m1.correlation.to_numpy(), m2.correlation.to_numpy()) or repr(_round(m1.to_dict())) != repr(_round(m2.to_dict())):
        return True, 'GaussianMultivariate: fit(A).fit(B) differs from fit(B)'
    return False, ''


def task(a):
    t0 = time.time()
    try:
        if a[0] == 'vine_two_fit':
            r = vine_two_fit(a[1])
            r['secs'] = time.time() - t0
            return (('two_fit',) + a[1:], r)
        if a[0] == 'gm_two_fit':
            r = gm_two_fit()
            r['secs'] = time.time() - t0
            return (('two_fit',), r)
        if a[0] == 'two_fit':
            r = two_fit(*a[1:])
        elif a[0] == 'biv_two_fit':
            r = biv_two_fit(a[1])
        elif a[0] == 'havoc':
            r = havoc_in_vine(*a[1:])
        else:
            r = {'misuse': misuse_checks()}
        r['secs'] = time.time() - t0
        return (a, r)
    except BaseException:
        import traceback
        return (a, {'error': traceback.format_exc()[-1500:]})


# ---------------------------------------------------------------- bivariate copulas: fit(A).fit(B) == fit(B)

class DetKendall:
    """kendalltau as a deterministic function of the two columns (NaN iff a column is constant)"""

    def __call__(self, x, y, *a, **k):
        from .stubs import all_equal
        x = list(np.asarray(x, dtype=object).flat)
        y = list(np.asarray(y, dtype=object).flat)
        if len(x) < 2 or all_equal(x) or all_equal(y):
            return (float('nan'), float('nan'))
        t = uf_of('kendalltau', len(x), x + y)
        Ctx.cur.assume(t.t >= -1, t.t <= 1)
        return (t, uf_of('kendall_p', len(x), x + y))


class DetLSQ:
    """least_squares(fun, x0, bounds): a root of fun inside the bounds; as a local solver its answer is a function of the
    residual *and of the starting point* (same residual term and same x0 => same answer, nothing else is promised)"""

    def __init__(self):
        self.memo = {}

    def __call__(self, fun, x0, *a, **kw):
        from .stubs import LSQResult
        ctx = Ctx.cur
        P = SymReal(z3.Real('lsq_placeholder'))
        r = fun(objarr([P]))
        r0 = r.ravel()[0] if isinstance(r, np.ndarray) else r
        key = (str(z3.simplify(tz(r0))), str(z3.simplify(tz(x0))) if isinstance(x0, SymReal) else repr(x0))
        if key not in self.memo:
            self.memo[key] = SymReal(z3.Real(f'theta_ls#{len(self.memo)}'))
        th = self.memo[key]
        bounds = kw.get('bounds', (-np.inf, np.inf))
        rr = fun(objarr([th]))
        rr0 = rr.ravel()[0] if isinstance(rr, np.ndarray) else rr
        ctx.assume(tz(rr0) == 0, th.t >= float(bounds[0]), th.t <= float(bounds[1]))
        return LSQResult(objarr([th]))


def biv_two_fit(fam):
    from .c10 import patches as fit_patches, FAMS
    cls, _ = FAMS[fam]

    def attempt(c, X):
        try:
            c.fit(X)
            return 'ok'
        except ValueError as e:
            return 'ValueError'

    def fn(ctx):
        A, Bd = symarr('a', 2, 2), symarr('b', 2, 2)
        for x in list(A.flat) + list(Bd.flat):
            ctx.assume(x.t >= 0, x.t <= 1)
        with fit_patches(DetKendall(), lsq=DetLSQ()):
            m = cls()
            ra = attempt(m, A)
            rb = attempt(m, Bd)
            f = cls()
            rf = attempt(f, Bd)
        return {'hist': (ra, rb), 'm': (rb, m.tau, m.theta), 'f': (rf, f.tau, f.theta)}
    paths, ex, _ = explore(fn, max_paths=5000, tlimit=200)
    fails = []
    for p in paths:
        if p.status != 'ok':
            fails.append({'what': f'raises {type(p.exc).__name__}: {str(p.exc)[:80]}'})
            continue
        v = p.value
        (r1, t1, th1), (r2, t2, th2) = v['m'], v['f']
        if r1 != r2:
            fails.append({'what': f'the second fit ends with {r1}, a fresh fit on the same data with {r2} (history {v["hist"]})'})
            continue
        if r1 != 'ok':
            continue
        for nm, a_, b_ in (('tau', t1, t2), ('theta', th1, th2)):
            same = (a_ is b_) or (isinstance(a_, SymReal) and isinstance(b_, SymReal) and (a_.t.eq(b_.t))) or \
                   (not isinstance(a_, SymReal) and not isinstance(b_, SymReal) and (a_ == b_ or (a_ != a_ and b_ != b_)))
            if not same and isinstance(a_, SymReal) and isinstance(b_, SymReal):
                s_ = z3.Solver()
                s_.set('timeout', 20000)
                s_.add(*p.ctx.pc)
                s_.add(a_.t != b_.t)
                same = s_.check() == z3.unsat
            if not same:
                fails.append({'what': f'{nm} after fit(A); fit(B) is not {nm} of a fresh fit(B) (history {v["hist"]})'})
    return {'fam': fam, 'paths': len(paths), 'exhaustive': ex, 'fails': fails[:3]}


def concrete_biv_refit(fam):
    """real code: a copula fitted on A and then on B equals (bit for bit) a fresh copula fitted on B"""
    import warnings
    warnings.simplefilter('ignore')
    from copulas.bivariate import Clayton, Frank, Gumbel
    cls = {'clayton': Clayton, 'gumbel': Gumbel, 'frank+': Frank, 'frank-': Frank, 'frank': Frank}[fam]
    rs = np.random.RandomState(3)
    n = 60
    base = rs.uniform(size=n)
    pos = np.column_stack((base, np.clip(base + 0.15 * rs.normal(size=n), 0.001, 0.999)))
    neg = np.column_stack((base, np.clip(1 - base + 0.1 * rs.normal(size=n), 0.001, 0.999)))
    zero = np.array([[0.2, 0.4], [0.4, 0.8], [0.6, 0.2], [0.8, 0.6]])       # Kendall tau exactly 0
    weak = np.column_stack((base, rs.uniform(size=n)))
    firsts = [zero, weak, pos, neg]
    seconds = [pos] if cls is not Frank else [pos, neg]
    for A in firsts:
        for Bd in seconds:
            m = cls()
            try:
                m.fit(A)
            except ValueError:
                pass
            try:
                m.fit(Bd)
                f = cls()
                f.fit(Bd)
            except ValueError:
                continue
            if not (m.tau == f.tau and m.theta == f.theta):
                return True, (f'{cls.__name__}: after fit(A) (tau {stats_tau(A):+.3f}) and fit(B) (tau {f.tau:+.3f}) theta = {m.theta!r}, '
                              f'a fresh copula fitted on B has theta = {f.theta!r}')
    return False, ''


def stats_tau(X):
    from scipy import stats
    return float(stats.kendalltau(X[:, 0], X[:, 1])[0])


def replay(d):
    if d.get('kind') == 'wrapper_refit':
        bad, detail = concrete_wrapper_refit()
        print(detail)
        return bad
    if d.get('kind') == 'biv_refit':
        bad, detail = concrete_biv_refit(d['fam'])
        print(detail)
        return bad
    if d.get('kind') == 'multi_refit':
        bad, detail = concrete_multi_refit(d['fam'])
    elif d.get('kind') == 'refit':
        bad, detail, _ = concrete_refit_violation(d['fam'], d.get('A'), d.get('B'))
    elif d.get('kind') == 'havoc':
        bad, detail = concrete_havoc(d['type'], d.get('d', 4))
    else:
        res = dict(misuse_checks())
        bad, detail = res.get(d['what']) != 'ok', res.get(d['what'])
    print(detail)
    return bad


def run(tier, seed):
    ck = Check('C19', tier, seed, 'model_checking',
               'symbolic two-fit histories of the real univariate fit code (scipy estimators as uninterpreted functions), havoc for np.empty '
               'in the vine construction, plus a finite enumeration of the misuse cases')
    for cls, _ in FAMILIES.values():
        ck.encode(cls._fit, cls._fit_constant)
    ck.encode(UB.ScipyModel.fit, UB.Univariate._check_constant_value, UB.Univariate._set_constant_value, UB.Univariate._replace_constant_methods,
              GaussianKDE._get_model, UT.get_instance, UT.store_args, UT.check_valid_values)
    ck.stubs = ['scipy.stats.<dist>.fit / fmin_slsqp: uninterpreted functions of the data (and bounds)', 'gaussian_kde: record of (dataset, bw_method, weights)',
                'np.empty: havoc', 'np.random: RNG model']
    sizes = [(2, 2), (1, 2), (2, 1)] if tier == 'quick' else [(2, 2), (1, 2), (2, 1), (3, 2), (2, 3)]
    ck.bounds = {'histories': '2 fits on symbolic datasets A, B', '(len A, len B)': sizes, 'values': 'unconstrained reals, constant datasets included'}
    ck.outside = ['the selecting wrapper with selection_sample_size (draws a subsample from the global RNG by design)',
                  'histories longer than two fits (the second fit starts from an arbitrary post-fit state of the first)']
    ck.assumptions = ['scipy estimators are deterministic functions of their arguments']
    jobs = [('two_fit', f, na, nb) for f in FAMILIES for (na, nb) in sizes]
    jobs += [('havoc', 4, t) for t in ('center', 'direct', 'regular')]
    jobs += [('vine_two_fit', t) for t in ('center', 'direct', 'regular')] + [('gm_two_fit',)]
    if tier != 'quick':
        jobs += [('havoc', 5, t) for t in ('direct',)]
    jobs += [('biv_two_fit', f) for f in ('clayton', 'gumbel', 'frank')]
    jobs.append(('misuse',))
    for a, r in pool_map(task, jobs):
        if r.get('error'):
            ck.inconcl(f'{a}: harness error {r["error"]}')
            continue
        if a[0] == 'two_fit':
            ck.paths += r['paths']
            ck.states += r['paths']
            ck.transitions += r['paths']
            nm = f"{r['fam']}: fit(A).fit(B) == fit(B), |A|={r['na']} |B|={r['nb']} ({r['paths']} paths)"
            if not r['exhaustive']:
                ck.inconcl(nm + ': not exhaustive')
            ck.ob(nm, 'unsat' if not r['fails'] else 'sat', r['secs'], queries=r['paths'])
            for fl in r['fails'][:2]:
                if r['fam'] not in FAMILIES:
                    bad, detail = concrete_multi_refit(r['fam'])
                    if bad:
                        ck.violation(f"refit:{r['fam'].split('(')[0]}", f"{nm}: {fl['what']} -- {detail}", {'kind': 'multi_refit', 'fam': r['fam']})
                    else:
                        ck.inconcl(f"{nm}: {fl['what']}; not reproduced on the real code")
                    break
                bad, detail, data = concrete_refit_violation(r['fam'], fl['A'], fl['B'])
                if bad:
                    ck.violation(f"refit:{r['fam'].split('(')[0]}", f"{nm}: {fl['what']} -- {detail}", {'kind': 'refit', 'fam': r['fam'], 'A': data[0], 'B': data[1]})
                    break
                else:
                    ck.inconcl(f"{nm}: {fl['what']}; not reproduced on the real code")
        elif a[0] == 'biv_two_fit':
            ck.paths += r['paths']
            ck.states += r['paths']
            nm = f"bivariate {r['fam']}: fit(A).fit(B) == fit(B) on 2-row tables, refusals included ({r['paths']} paths)"
            if not r['exhaustive']:
                ck.inconcl(nm + ': not exhaustive')
            ck.ob(nm, 'unsat' if not r['fails'] else 'sat', r['secs'], queries=r['paths'])
            if r['fails']:
                bad, detail = concrete_biv_refit(r['fam'])
                if bad:
                    ck.violation(f"refit:bivariate {r['fam']}", f"{nm}: {r['fails'][0]['what']} -- {detail}", {'kind': 'biv_refit', 'fam': r['fam']})
                else:
                    ck.inconcl(f"{nm}: {r['fails'][0]['what']}; not reproduced on the real code")
        elif a[0] == 'havoc':
            ck.paths += r['paths']
            ck.states += r['paths']
            nm = f"{r['type']} vine d={r['d']}: no decision and no stored edge value mentions np.empty contents ({r['paths']} paths)"
            bad = r['decisions'] or r['stored']
            ck.ob(nm, 'unsat' if not bad else 'sat', r['secs'], queries=r['paths'])
            if bad:
                b, detail = concrete_havoc(r['type'], r['d'])
                if b:
                    ck.violation(f"uninitialised:{r['type']}", f"{nm}: {r['decisions']} paths decide on, {r['stored']} edges store uninitialised memory -- {detail}",
                                 {'kind': 'havoc', 'type': r['type'], 'd': r['d']})
                else:
                    ck.inconcl(f'{nm}: havoc dependence not reproduced concretely')
        else:
            for what, st in r['misuse']:
                ck.transitions += 1
                ck.ob(what, 'unsat' if st == 'ok' else 'sat', 0.0)
                if st != 'ok':
                    ck.violation('misuse:' + what, f'{what}: {st}', {'kind': 'misuse', 'what': what})
    n = 0
    for fam in FAMILIES:
        n += 1
        bad, detail, data = concrete_refit_violation(fam)
        if bad:
            ck.violation(f"refit:{fam.split('(')[0]}", detail, {'kind': 'refit', 'fam': fam, 'A': data[0], 'B': data[1]})
    for fam_ in ('clayton', 'gumbel', 'frank'):
        n += 1
        bad, detail = concrete_biv_refit(fam_)
        if bad:
            ck.violation(f'refit:bivariate {fam_}', detail, {'kind': 'biv_refit', 'fam': fam_})
    n += 1
    bad, detail = concrete_wrapper_refit()
    if bad:
        ck.violation('refit:Univariate wrapper', detail, {'kind': 'wrapper_refit'})
    for which in ('VineCopula', 'GaussianMultivariate'):
        n += 1
        bad, detail = concrete_multi_refit(which)
        if bad:
            ck.violation(f'refit:{which}', detail, {'kind': 'multi_refit', 'fam': which})
    ck.traces_validated = n
    return ck.finish()
