"""C13 - Gaussian-copula density/CDF equal the normal-score MVN, in any representation."""
import itertools
import time

import numpy as np
import pandas as pd
import z3

import copulas.multivariate.base as MB
import copulas.multivariate.gaussian as G
from copulas.errors import NotFittedError
from copulas.multivariate.gaussian import GaussianMultivariate
from copulas.utils import EPSILON

from symx.core import LOG, Ctx, SymReal, explore, objarr, tz
from symx.report import Check
from symx.shim import NPShim, patched, s_max, s_min
from . import gm
from .copsuite import pool_map

NAMES = ['c', 'a', 'b']


def score(j, x):
    """documented normal score of value x in training column j"""
    f = SymReal(gm.FJ(z3.IntVal(j), tz(x)))
    c = s_min(s_max(f, float(EPSILON)), 1 - float(EPSILON))
    return gm.PHIINV(tz(c))


def run_case(d, kind, perm, rows, method):
    cols = NAMES[:d]
    df, M = gm.sym_corr(cols)
    xs = [[SymReal(z3.Real(f'x_{r}_{c}')) for c in cols] for r in range(rows)]   # xs[r][training position]
    res = []

    def fn(ctx):
        mvn = gm.MVNRecorder()
        m = gm.fitted_model(cols, df)
        if kind == 'frame':
            pc = [cols[i] for i in perm]
            X = pd.DataFrame(objarr([[xs[r][cols.index(c)] for c in pc] for r in range(rows)]), columns=pc)
        elif kind == 'series':
            pc = [cols[i] for i in perm]
            X = pd.Series(objarr([xs[0][cols.index(c)] for c in pc]), index=pc)
        elif kind == 'array2d':
            X = objarr([[xs[r][j] for j in range(d)] for r in range(rows)])
        else:
            X = objarr([xs[0][j] for j in range(d)])
        with gm.gm_patches(mvn=mvn), patched(MB, np=NPShim(havoc_empty=False)):
            out = getattr(m, method)(X)
        return out, mvn.calls
    with gm.gm_patches():
        paths, ex, _ = explore(fn, max_paths=64)
    nrows = rows if kind in ('frame', 'array2d') else 1
    for p in paths:
        if p.status != 'ok':
            res.append((f'{method} raises {type(p.exc).__name__}: {str(p.exc)[:100]}', 'sat'))
            continue
        out, calls = p.value
        want_fn = 'cdf' if method == 'cumulative_distribution' else 'pdf'
        ok = len(calls) == 1 and calls[0][0] == want_fn
        res.append((f'one multivariate_normal.{want_fn} call', 'unsat' if ok else 'sat'))
        if not ok:
            continue
        _, arr, a, k = calls[0]
        arr = np.asarray(arr, dtype=object)
        if arr.ndim == 1:
            arr = arr.reshape(1, -1)
        okshape = arr.shape == (nrows, d)
        res.append(('argument has one row per input row and d columns', 'unsat' if okshape else 'sat'))
        if not okshape:
            continue
        s = z3.Solver()
        s.add(*p.ctx.pc)
        bad = [tz(arr[r, j]) != score(j, xs[r][j]) for r in range(nrows) for j in range(d)]
        s.push()
        s.add(z3.Or(*bad))
        res.append(('argument = PhiInv(clip(F_j(x_rj))) in training column order', str(s.check())))
        s.pop()
        cov = k.get('cov', a[1] if len(a) > 1 else (a[0] if a and not k.get('mean') is None else None))
        if cov is None and a:
            cov = a[-1]
        covok = cov is not None and np.shape(cov) == (d, d) and all(
            tz(np.asarray(cov, dtype=object)[i, j]).eq(tz(M[i, j])) for i in range(d) for j in range(d))
        res.append(('cov argument is the fitted correlation', 'unsat' if covok else 'sat'))
        if want_fn == 'pdf':
            res.append(('allow_singular=True', 'unsat' if k.get('allow_singular') is True else 'sat'))
        if method == 'log_probability_density':
            o = list(np.asarray(out, dtype=object).flat)
            okl = all(isinstance(v, SymReal) and z3.is_app(v.t) and v.t.decl().eq(LOG) and v.t.arg(0).decl().name().startswith('mvnpdf') for v in o)
            res.append(('log_probability_density = log(probability_density)', 'unsat' if okl else 'sat'))
    return res


def monotone_score():
    """x <= x' => score_j(x) <= score_j(x') given F_j and PhiInv non-decreasing (monotone instances)"""
    x, y = z3.Real('x'), z3.Real('y')
    j = z3.IntVal(0)
    fx, fy = gm.FJ(j, x), gm.FJ(j, y)
    lo, hi = float(EPSILON), 1 - float(EPSILON)
    cx = tz(s_min(s_max(SymReal(fx), lo), hi))
    cy = tz(s_min(s_max(SymReal(fy), lo), hi))
    hyp = [x <= y, z3.Implies(x <= y, fx <= fy), z3.Implies(cx <= cy, gm.PHIINV(cx) <= gm.PHIINV(cy))]
    s = z3.Solver()
    s.add(*hyp)
    s.add(z3.Not(gm.PHIINV(cx) <= gm.PHIINV(cy)))
    return [('normal score non-decreasing in x (so the MVN CDF of it is non-decreasing in every coordinate)', str(s.check()))]


def unfitted():
    res = []
    for meth in ('probability_density', 'cumulative_distribution', 'log_probability_density'):
        m = GaussianMultivariate()
        try:
            getattr(m, meth)(np.zeros((1, 2)))
            res.append((f'unfitted {meth} must raise NotFittedError', 'sat'))
        except NotFittedError:
            res.append((f'unfitted {meth} raises NotFittedError', 'unsat'))
        except Exception as e:
            res.append((f'unfitted {meth} raises {type(e).__name__}', 'sat'))
    return res


def task(a):
    t0 = time.time()
    try:
        if a[0] == 'case':
            return (a, run_case(*a[1:]), time.time() - t0)
        if a[0] == 'mono':
            return (a, monotone_score(), 0.0)
        return (a, unfitted(), 0.0)
    except BaseException:
        import traceback
        return (a, [('harness error ' + traceback.format_exc()[-1200:], 'error')], 0.0)


def concrete_violation():
    """real code: every representation gives the same numbers = scipy MVN at the normal scores"""
    from scipy import stats
    from copulas.univariate import GaussianUnivariate, BetaUnivariate
    rs = np.random.RandomState(5)
    cov = np.array([[1, .6, -.3], [.6, 1, .2], [-.3, .2, 1]])
    data = pd.DataFrame(rs.multivariate_normal([1, 2, 3], cov, 300), columns=NAMES)
    m = GaussianMultivariate(distribution=GaussianUnivariate)
    m.fit(data)
    pts = data.iloc[:4].copy()
    pts.iloc[3] = [40.0, -35.0, 3.0]   # far outside the training range
    U = np.column_stack([np.clip(m.univariates[j].cdf(pts[c].to_numpy()), EPSILON, 1 - EPSILON) for j, c in enumerate(NAMES)])
    Z = stats.norm.ppf(U)
    want_pdf = stats.multivariate_normal.pdf(Z, cov=m.correlation.to_numpy(), allow_singular=True)
    want_cdf = stats.multivariate_normal.cdf(Z, cov=m.correlation.to_numpy())
    reps = {'frame': pts, 'permuted': pts[['b', 'c', 'a']], 'array': pts.to_numpy()}
    for nm, X in reps.items():
        if not np.allclose(m.probability_density(X), want_pdf, rtol=1e-9, atol=0):
            return True, f'pdf differs for {nm}'
        if not np.allclose(m.cumulative_distribution(X), want_cdf, rtol=1e-4, atol=1e-6):
            return True, f'cdf differs for {nm}'
        if not np.allclose(m.log_probability_density(X), np.log(want_pdf), rtol=1e-9):
            return True, f'logpdf differs for {nm}'
    for r in range(4):
        for nm, X in (('series', pts.iloc[r]), ('series-permuted', pts.iloc[r][['b', 'a', 'c']]), ('1d', pts.iloc[r].to_numpy())):
            if not np.allclose(m.probability_density(X), want_pdf[r], rtol=1e-9):
                return True, f'pdf differs for {nm} row {r}: {m.probability_density(X)} vs {want_pdf[r]}'
    return False, ''


def replay(d):
    bad, detail = concrete_violation()
    print(detail)
    return bad


def run(tier, seed):
    ck = Check('C13', tier, seed, 'model_checking',
               'symbolic execution of the real density/CDF methods on stub marginals for every container and column permutation; '
               'z3 decides that the array handed to scipy is the normal-score matrix in training order')
    ck.encode(GaussianMultivariate.probability_density, GaussianMultivariate.cumulative_distribution,
              GaussianMultivariate._transform_to_normal, MB.Multivariate.log_probability_density)
    ck.stubs = ['marginals: uninterpreted F_j', 'stats.norm.ppf: uninterpreted PhiInv', 'stats.multivariate_normal.pdf/cdf: recorder returning fresh values']
    ck.bounds = {'columns d': '2..3', 'rows': '1..2', 'containers': 'DataFrame (all column permutations), Series (all permutations), 1-D and 2-D ndarray'}
    ck.outside = ["scipy's multivariate normal numerics", 'monotonicity/range of the CDF rest on scipy MVN cdf being a CDF (contract) composed with the monotone score']
    ck.assumptions = ['F_j non-decreasing, PhiInv non-decreasing (instances)']
    jobs = [('mono',), ('unfitted',)]
    for d in (2, 3):
        perms = list(itertools.permutations(range(d)))
        for meth in ('probability_density', 'cumulative_distribution', 'log_probability_density'):
            for pm in perms:
                if meth != 'probability_density' and pm != perms[-1] and pm != perms[0]:
                    continue
                jobs.append(('case', d, 'frame', pm, 2, meth))
                jobs.append(('case', d, 'series', pm, 1, meth))
            jobs.append(('case', d, 'array2d', None, 2, meth))
            jobs.append(('case', d, 'array1d', None, 1, meth))
    viol = False
    for a, res, secs in pool_map(task, jobs):
        ck.paths += 1
        ck.states += 1
        for (name, st) in res:
            ck.transitions += 1
            nm = f"{a[1:] if a[0] == 'case' else a[0]}: {name}"
            ck.ob(nm, st if st in ('unsat', 'sat', 'unknown') else 'error', secs / max(1, len(res)))
            if st != 'unsat':
                bad, detail = concrete_violation()
                if bad:
                    ck.violation(name[:60], f'{nm}: {detail}', {})
                else:
                    ck.inconcl(f'{nm}: {st}; the concrete witness suite does not reproduce it')
    bad, detail = concrete_violation()
    ck.traces_validated = 1
    if bad:
        ck.violation('conformance', detail, {})
    return ck.finish()
