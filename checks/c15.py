"""C15 - sampling is reproducible per model seed and never perturbs the global RNG.

The real set_random_state / random_state / validate_random_state and each class's real sample
wrapper run on the symbolic RNG model (symx/rng.py); scipy's samplers are stubs that draw from the
model's *global* generator (as scipy does with random_state=None)."""
import time

import numpy as np
import pandas as pd
import z3

import copulas.bivariate.base as BB
import copulas.datasets as DS
import copulas.multivariate.gaussian as G
import copulas.multivariate.vine as VN
import copulas.multivariate.tree as TR
import copulas.univariate.base as UB
import copulas.univariate.gaussian_kde as UK
import copulas.utils as UT
from copulas.bivariate import Clayton
from copulas.bivariate.base import CopulaTypes
from copulas.multivariate.gaussian import GaussianMultivariate
from copulas.multivariate.vine import VineCopula
from copulas.univariate import GaussianKDE, GaussianUnivariate, Univariate

from symx.core import Ctx, SymReal, explore, objarr, sym, tz
from symx.report import Check
from symx.rng import RNGModel, N, D, S
from symx.shim import NPShim, ns, patched, patched_many
from . import gm, stubs
from .copsuite import pool_map


def syms_of(x):
    """names of all uninterpreted constants in a (nested) symbolic result"""
    out = set()

    def term(t):
        st = [t]
        seen = set()
        while st:
            y = st.pop()
            if y.get_id() in seen:
                continue
            seen.add(y.get_id())
            if z3.is_const(y) and y.decl().kind() == z3.Z3_OP_UNINTERPRETED:
                out.add(y.decl().name())
            st.extend(y.children())

    def go(v):
        if isinstance(v, SymReal):
            term(v.t)
        elif isinstance(v, (pd.DataFrame, pd.Series)):
            go(v.to_numpy())
        elif isinstance(v, np.ndarray):
            for e in v.flat:
                go(e)
        elif isinstance(v, (list, tuple)):
            for e in v:
                go(e)
    go(x)
    return out


def flat(v):
    if isinstance(v, (pd.DataFrame, pd.Series)):
        v = v.to_numpy()
    return list(np.asarray(v, dtype=object).flat)


def same_vals(a, b):
    a, b = flat(a), flat(b)
    if len(a) != len(b):
        return False
    for x, y in zip(a, b):
        if isinstance(x, SymReal) or isinstance(y, SymReal):
            if not (isinstance(x, SymReal) and isinstance(y, SymReal) and (x.t.eq(y.t) or z3.is_true(z3.simplify(x.t == y.t)))):
                return False
        elif not (x == y or (x != x and y != y)):
            return False
    return True


class KDEModelStub:
    def __init__(self, rng):
        self.rng = rng
        self.raise_flag = False

    def resample(self, size=1, seed=None):
        if self.raise_flag:
            raise RuntimeError('resample failed')
        vals = self.rng.glob._draw('kde.resample', int(size), ())
        return objarr([vals])


def all_patches(rng, extra=()):
    """np (with the RNG model) in every module that touches the generator"""
    sh = NPShim(havoc_empty=True, force_obj=True, random=rng)
    ush = NPShim(havoc_empty=False, random=rng)
    specs = [(UT, dict(np=ush)), (BB, dict(np=sh, brentq=stubs.BrentqStub())), (UB, dict(np=ush)), (UK, dict(np=ush)),
             (G, dict(np=sh, stats=ns(norm=ns(ppf=gm.phiinv, cdf=gm.phi), multivariate_normal=gm.MVNRecorder()))),
             (VN, dict(np=sh)), (TR, dict(np=sh))]
    import copulas.bivariate.clayton as MC
    specs.append((MC, dict(np=sh)))
    return patched_many(*(specs + list(extra)))


# ---- samplers: each returns (model, call) where call() runs one sample(n) on the real wrapper

def mk_scipy(rng, seed, tag=''):
    m = GaussianUnivariate()
    m._params = {'loc': sym('loc' + tag), 'scale': sym('scale' + tag)}
    m.fitted = True
    m.set_random_state(seed)
    return m


def mk_kde(rng, seed, tag=''):
    m = GaussianKDE()
    m._params = {'dataset': [0.0, 1.0]}
    m._model = KDEModelStub(rng)
    m.fitted = True
    m.set_random_state(seed)
    return m


def mk_wrapper(rng, seed, tag=''):
    m = Univariate()
    m._instance = mk_scipy(rng, None, tag)
    m.fitted = True
    m.set_random_state(seed)
    return m


def mk_biv(rng, seed, tag=''):
    m = Clayton()
    m.theta = sym('theta' + tag)
    m.tau = 0.5
    m.set_random_state(seed)
    return m


def mk_gm(rng, seed, tag=''):
    cols = ['c', 'a']
    df, M = gm.sym_corr(cols, prefix='s' + tag)
    m = gm.fitted_model(cols, df)
    m.set_random_state(seed)
    return m


def mk_vine(rng, seed, tag=''):
    import warnings
    with warnings.catch_warnings():
        warnings.simplefilter('ignore')
        m = VineCopula('center')
    m.n_var = 2
    m.columns = ['c', 'a']
    m.truncated = 3
    e = TR.Edge(0, 0, 1, CopulaTypes.CLAYTON, sym('vtheta' + tag))
    t = TR.CenterTree()
    t.edges = [e]
    t.level = 1
    t.fitted = True
    m.trees = [t]
    u0, u1 = gm.StubUni(0), gm.StubUni(1)
    m.ppfs = [u0.percent_point, u1.percent_point]
    m.unis = [u0, u1]
    m.fitted = True
    m.set_random_state(seed)
    return m


SAMPLERS = {
    'ScipyModel.sample (GaussianUnivariate)': (mk_scipy, lambda m: m.sample(2), {'theta': False}),
    'GaussianKDE.sample': (mk_kde, lambda m: m.sample(2), {}),
    'Univariate.sample (selecting wrapper)': (mk_wrapper, lambda m: m.sample(2), {}),
    'Bivariate.sample (Clayton)': (mk_biv, lambda m: m.sample(1), {}),
    'GaussianMultivariate.sample': (mk_gm, lambda m: m.sample(1), {}),
    'GaussianMultivariate.sample(conditions)': (mk_gm, lambda m: m.sample(1, conditions={'a': sym('xa')}), {}),
    'VineCopula.sample': (mk_vine, lambda m: m.sample(1), {}),
}


def domain(ctx):
    for n in ('theta', 'thetaB', 'vtheta', 'vthetaB'):
        ctx.assume(z3.Real(n) > 0)
    for n in ('scale', 'scaleB'):
        ctx.assume(z3.Real(n) > 0)
    ctx.assume(*gm.minors_pd(gm.sym_corr(['c', 'a'], prefix='s')[1]))
    ctx.assume(*gm.minors_pd(gm.sym_corr(['c', 'a'], prefix='sB')[1]))


def scenario(name, kind):
    mk, call, _ = SAMPLERS[name]

    def fn(ctx):
        rng = RNGModel()
        domain(ctx)
        mc = gm.ModelClassStub('norm', rng)
        res = {}
        with all_patches(rng), patched(GaussianUnivariate, MODEL_CLASS=mc):
            g_before = rng.glob.token
            if kind == 'seeded':
                m = mk(rng, 5)
                s0 = m.random_state.token
                out1 = call(m)
                s1 = m.random_state.token
                out2 = call(m)
                s2 = m.random_state.token
                res = {'out1': out1, 'out2': out2, 's': (s0, s1, s2)}
            elif kind == 'twins':
                a, b = mk(rng, 5), mk(rng, 5)
                res = {'a1': call(a), 'b1': call(b), 'a2': call(a), 'b2': call(b)}
            elif kind == 'interleave':
                a, b = mk(rng, 5), mk(rng, 9, 'B')
                ref = mk(rng, 5)
                res = {'a1': call(a), 'b1': call(b), 'a2': call(a), 'r1': call(ref), 'r2': call(ref)}
            elif kind == 'unseeded':
                m = mk(rng, None)
                res = {'out1': call(m)}
            elif kind == 'raises':
                m = mk(rng, 5)
                s0 = m.random_state.token
                boom = RuntimeError('sampler failed')
                if hasattr(m, '_model') and isinstance(getattr(m, '_model', None), KDEModelStub):
                    m._model.raise_flag = True
                else:
                    mc.rvs = lambda *a, **k: (_ for _ in ()).throw(boom)
                    rng.glob.uniform = lambda *a, **k: (_ for _ in ()).throw(boom)
                    rng.glob.multivariate_normal = lambda *a, **k: (_ for _ in ()).throw(boom)
                try:
                    call(m)
                    res = {'raised': False}
                except RuntimeError:
                    res = {'raised': True}
            res['g'] = (g_before, rng.glob.token)
            res['req'] = [(q['kind'], q['n'], q['state']) for q in rng.requests]
        return res
    return fn


def analyse(name, kind):
    t0 = time.time()
    paths, ex, _ = explore(scenario(name, kind), max_paths=3000, tlimit=240)
    out = []
    for p in paths:
        if p.status != 'ok':
            if isinstance(p.exc, ValueError) and 'different signs' in str(p.exc):
                continue
            out.append((f'{kind}: raises {type(p.exc).__name__}: {str(p.exc)[:100]}', 'sat'))
            continue
        v = p.value
        s = z3.Solver()
        s.set('timeout', 20000)
        s.add(*p.ctx.pc)

        def eq(a, b):
            if a.eq(b):
                return True
            s.push()
            s.add(a != b)
            r = s.check() == z3.unsat
            s.pop()
            return r

        def neq(a, b):
            s.push()
            s.add(a == b)
            r = s.check() == z3.unsat
            s.pop()
            return r
        g0, g1 = v['g']
        if kind in ('seeded', 'twins', 'interleave', 'raises'):
            out.append((f'{kind}: global generator state is exactly as before', 'unsat' if eq(g0, g1) else 'sat'))
        if kind == 'seeded':
            s0, s1, s2 = v['s']
            out.append(('seeded: the model stream advances on every call', 'unsat' if (neq(s0, s1) and neq(s1, s2)) else 'sat'))
            names = syms_of(v['out1']) | syms_of(v['out2'])
            leak = [n for n in names if n.startswith('g0') or n.startswith('entropy')]
            out.append(('seeded: output does not depend on the global/entropy state', 'unsat' if not leak else 'sat'))
            out.append(('seeded: draws were requested', 'unsat' if v['req'] else 'sat'))
        if kind == 'twins':
            out.append(('twins: two equal models with the same seed give identical streams',
                        'unsat' if same_vals(v['a1'], v['b1']) and same_vals(v['a2'], v['b2']) else 'sat'))
        if kind == 'interleave':
            out.append(('interleave: calls on another model do not affect this model\'s stream',
                        'unsat' if same_vals(v['a1'], v['r1']) and same_vals(v['a2'], v['r2']) else 'sat'))
        if kind == 'unseeded':
            names = syms_of(v['out1'])
            out.append(('unseeded: draws come from the global state, which advances',
                        'unsat' if (any(n.startswith('g0') for n in names) or not names) and neq(g0, g1) else 'sat'))
        if kind == 'raises':
            out.append(('raises: the failure propagates', 'unsat' if v['raised'] else 'sat'))
    return {'name': name, 'kind': kind, 'res': out, 'paths': len(paths), 'exhaustive': ex, 'secs': time.time() - t0}


def validate_seed():
    res = []
    rng = RNGModel()
    with patched(UT, np=NPShim(havoc_empty=False, random=rng)):
        r = UT.validate_random_state(None)
        res.append(('None -> None', 'unsat' if r is None else 'sat'))
        r = UT.validate_random_state(7)
        res.append(('int -> RandomState(seed)', 'unsat' if isinstance(r, rng.RandomState) and r.token.eq(S(z3.IntVal(7))) else 'sat'))
        rs = rng.RandomState(3)
        res.append(('RandomState -> same object', 'unsat' if UT.validate_random_state(rs) is rs else 'sat'))
        for bad in ('7', 7.5, [1], (1, 2)):
            try:
                UT.validate_random_state(bad)
                res.append((f'{type(bad).__name__} seed must raise TypeError', 'sat'))
            except TypeError:
                res.append((f'{type(bad).__name__} seed raises TypeError', 'unsat'))
    return {'name': 'validate_random_state', 'kind': 'types', 'res': res, 'paths': 1, 'exhaustive': True, 'secs': 0.0}


DATASETS = ['sample_bivariate_age_income', 'sample_trivariate_xyz', 'sample_univariate_bernoulli', 'sample_univariate_bimodal',
            'sample_univariate_uniform', 'sample_univariate_normal', 'sample_univariate_degenerate', 'sample_univariate_exponential',
            'sample_univariate_beta']


def dataset(name, size=2, seed=11):
    t0 = time.time()

    def fn(ctx):
        rng = RNGModel()
        sh = NPShim(havoc_empty=True, force_obj=True, random=rng)
        ush = NPShim(havoc_empty=False, random=rng)
        beta = gm.ModelClassStub('beta', rng)
        with patched(UT, np=ush), patched(DS, np=sh, stats=ns(beta=beta)):
            g0 = rng.glob.token
            a = getattr(DS, name)(size=size, seed=seed)
            g1 = rng.glob.token
            b = getattr(DS, name)(size=size, seed=seed)
            g2 = rng.glob.token
        return a, b, (g0, g1, g2)
    paths, ex, _ = explore(fn, max_paths=2000, tlimit=120)
    out = []
    for p in paths:
        if p.status != 'ok':
            out.append((f'raises {type(p.exc).__name__}: {str(p.exc)[:100]}', 'sat' if p.status == 'exc' else 'unknown'))
            continue
        a, b, (g0, g1, g2) = p.value
        out.append((f'exactly size={size} rows', 'unsat' if len(a) == size and len(b) == size else 'sat'))
        out.append(('global generator state untouched', 'unsat' if g0.eq(g1) and g1.eq(g2) else 'sat'))
        out.append(('deterministic in (size, seed)', 'unsat' if same_vals(a, b) else 'sat'))
        names = syms_of(a)
        out.append(('output independent of the global state', 'unsat' if not any(n.startswith('g0') or n.startswith('entropy') for n in names) else 'sat'))
    return {'name': f'datasets.{name}' + ('' if seed == 11 else f' (seed={seed})'), 'kind': 'dataset', 'res': out, 'paths': len(paths), 'exhaustive': ex, 'secs': time.time() - t0}


def task(a):
    try:
        if a[0] == 'scenario':
            return analyse(a[1], a[2])
        if a[0] == 'dataset':
            return dataset(a[1], seed=(a[2] if len(a) > 2 else 11))
        return validate_seed()
    except BaseException:
        import traceback
        return {'name': str(a), 'kind': 'error', 'res': [('harness error ' + traceback.format_exc()[-1500:], 'error')], 'paths': 0,
                'exhaustive': False, 'secs': 0}


# ---------------------------------------------------------------- concrete replay on the real code

def real_models():
    import warnings
    warnings.simplefilter('ignore')
    rs = np.random.RandomState(0)
    x = rs.normal(size=120)
    X2 = pd.DataFrame({'c': x, 'a': 0.6 * x + rs.normal(size=120)})
    from copulas.univariate import BetaUnivariate
    out = {}
    out['ScipyModel.sample (GaussianUnivariate)'] = lambda: _fit(GaussianUnivariate(), x)
    out['GaussianKDE.sample'] = lambda: _fit(GaussianKDE(), x)
    out['Univariate.sample (selecting wrapper)'] = lambda: _fit(Univariate(candidates=[GaussianUnivariate]), x)
    out['Bivariate.sample (Clayton)'] = lambda: _biv()
    out['GaussianMultivariate.sample'] = lambda: _fit(GaussianMultivariate(distribution=GaussianUnivariate), X2)
    out['GaussianMultivariate.sample(conditions)'] = out['GaussianMultivariate.sample']
    out['VineCopula.sample'] = lambda: _fit(VineCopula('center'), X2)
    return out


def _fit(m, X):
    m.fit(X)
    return m


def _biv():
    c = Clayton()
    c.theta, c.tau = 2.0, 0.5
    return c


def concrete_violation(name):
    import warnings
    warnings.simplefilter('ignore')
    mk = real_models()[name]
    kw = {'conditions': {'a': 0.3}} if 'conditions' in name else {}
    try:
        a, b = mk(), mk()
        a.set_random_state(5)
        b.set_random_state(5)
        np.random.seed(123)
        st0 = np.random.get_state()
        a1 = np.asarray(a.sample(3, **kw), dtype=float)
        st1 = np.random.get_state()
        np.random.seed(77)
        b1 = np.asarray(b.sample(3, **kw), dtype=float)
        a2 = np.asarray(a.sample(3, **kw), dtype=float)
    except Exception as e:
        return True, f'{name}: raises {type(e).__name__}: {e}'
    if not (np.array_equal(st0[1], st1[1]) and st0[2] == st1[2]):
        return True, f'{name}: a seeded sample() call changed the global NumPy random state'
    # a failing sample() call (negative size) must leave the global state alone as well
    c = mk()
    c.set_random_state(5)
    np.random.seed(321)
    st0 = np.random.get_state()
    try:
        c.sample(-1, **kw)
    except Exception:
        pass
    st1 = np.random.get_state()
    if not (np.array_equal(st0[1], st1[1]) and st0[2] == st1[2]):
        return True, f'{name}: a sample() call that raised left the global NumPy random state changed'
    if not np.allclose(a1, b1, equal_nan=True):
        return True, f'{name}: two equal models with the same seed give different samples: {a1.ravel()[:3]} vs {b1.ravel()[:3]}'
    if np.allclose(a1, a2):
        return True, f'{name}: successive calls do not advance the stream'
    # one RandomState object handed to two equal models: identical streams, no cross-talk, the caller's object is not consumed
    try:
        shared = np.random.RandomState(5)
        ref_state = np.random.RandomState(5).get_state()
        p_, q_, r_ = mk(), mk(), mk()
        p_.set_random_state(shared)
        q_.set_random_state(shared)
        r_.set_random_state(np.random.RandomState(5))
        p1 = np.asarray(p_.sample(3, **kw), dtype=float)
        q1 = np.asarray(q_.sample(3, **kw), dtype=float)
        p2 = np.asarray(p_.sample(3, **kw), dtype=float)
        r1 = np.asarray(r_.sample(3, **kw), dtype=float)
        r2 = np.asarray(r_.sample(3, **kw), dtype=float)
    except Exception as e:
        return True, f'{name}: sampling with a RandomState seed raises {type(e).__name__}: {e}'
    if not np.allclose(p1, q1, equal_nan=True):
        return True, f'{name}: two equal models given the same RandomState object give different first samples'
    if not (np.allclose(p1, r1, equal_nan=True) and np.allclose(p2, r2, equal_nan=True)):
        return True, f'{name}: the stream of a model seeded with a RandomState depends on calls made on another model sharing that object'
    st_ = shared.get_state()
    if not (np.array_equal(st_[1], ref_state[1]) and st_[2] == ref_state[2]):
        return True, f'{name}: sampling consumes the RandomState object the caller passed as seed'
    # without a seed: driven by, and reproducible through, the global NumPy state
    try:
        u = mk()
        np.random.seed(99)
        st0 = np.random.get_state()
        s1 = np.asarray(u.sample(3, **kw), dtype=float)
        st1 = np.random.get_state()
        s2 = np.asarray(u.sample(3, **kw), dtype=float)
        np.random.seed(99)
        t1 = np.asarray(u.sample(3, **kw), dtype=float)
        t2 = np.asarray(u.sample(3, **kw), dtype=float)
    except Exception as e:
        return True, f'{name}: unseeded sampling raises {type(e).__name__}: {e}'
    if np.array_equal(st0[1], st1[1]) and st0[2] == st1[2]:
        return True, f'{name}: sampling from an unseeded model does not advance the global NumPy random state'
    if not (np.allclose(s1, t1, equal_nan=True) and np.allclose(s2, t2, equal_nan=True)):
        return True, f'{name}: an unseeded model is not reproducible through np.random.seed: {s2.ravel()[:2]} vs {t2.ravel()[:2]} on the second call'
    if np.allclose(s1, s2):
        return True, f'{name}: successive unseeded calls repeat the same draws'
    return False, ''


def concrete_dataset_violation(name):
    """real code: deterministic in (size, seed), `size` rows, global state untouched"""
    fn = getattr(DS, name.split('.')[-1].split(' ')[0])
    for seed_ in (11, 0):
        bad, detail = _concrete_dataset_violation(name, fn, seed_)
        if bad:
            return bad, detail
    return False, ''


def _concrete_dataset_violation(name, fn, seed_):
    outs = []
    for gseed in (1, 2):
        np.random.seed(gseed)
        st0 = np.random.get_state()
        a = fn(size=6, seed=seed_)
        st1 = np.random.get_state()
        if not (np.array_equal(st0[1], st1[1]) and st0[2] == st1[2]):
            return True, f'{name} (seed={seed_}): the global NumPy random state changed'
        if len(a) != 6:
            return True, f'{name}: {len(a)} rows for size=6'
        outs.append(np.asarray(a, dtype=float))
    if not np.allclose(outs[0], outs[1], equal_nan=True):
        return True, f'{name} (seed={seed_}): output depends on the global random state (not a function of (size, seed))'
    return False, ''


def replay(d):
    if d['name'].startswith('datasets.'):
        bad, detail = concrete_dataset_violation(d['name'])
        print(detail)
        return bad
    bad, detail = concrete_violation(d['name'])
    print(detail)
    return bad


def run(tier, seed):
    ck = Check('C15', tier, seed, 'model_checking',
               'symbolic execution of the real RNG scoping code and sample wrappers on a symbolic generator-state model; '
               'z3 decides state restoration / stream advance / independence on every path')
    ck.encode(UT.set_random_state, UT.random_state, UT.validate_random_state, UB.ScipyModel.sample, UB.Univariate.sample,
              GaussianKDE.sample, BB.Bivariate.sample, GaussianMultivariate.sample, VineCopula.sample, VineCopula._sample_row)
    ck.encode(*[getattr(DS, n) for n in DATASETS])
    ck.stubs = ['np.random: RNG model (state token, next-state N injective, draws D(state,i))',
                'scipy rvs / gaussian_kde.resample: draw from the model\'s global generator', 'marginals/Phi/brentq as in the other checks']
    ck.bounds = {'calls': '<= 3 sample calls over <= 2 models (+1 reference model)', 'n': '1..2 rows', 'vine': '2 columns, 1 tree',
                 'datasets': 'size 2'}
    ck.outside = ['bit-level behaviour of MT19937', 'seeds given as tuples (accepted by the docstring, rejected by the code and not part of the property)']
    ck.assumptions = ['RNG model: equal states give equal draws; N(s,n) != s for n > 0; N(.,n) injective']
    jobs = [('types',)]
    for name in SAMPLERS:
        for kind in ('seeded', 'twins', 'interleave', 'unseeded', 'raises'):
            jobs.append(('scenario', name, kind))
    for n in DATASETS:
        jobs.append(('dataset', n))
        jobs.append(('dataset', n, 0))
    for r in pool_map(task, jobs):
        ck.paths += r['paths']
        ck.states += max(1, r['paths'])
        if not r['exhaustive'] and r['kind'] != 'error':
            ck.inconcl(f"{r['name']} {r['kind']}: exploration not exhaustive")
        agg = {}
        for name, st in r['res']:
            agg.setdefault(name, []).append(st)
        for name, sts in agg.items():
            ck.transitions += len(sts)
            bad = [x for x in sts if x != 'unsat']
            nm = f"{r['name']}: {name} [{len(sts)} paths]"
            ck.ob(nm, 'unsat' if not bad else bad[0], r['secs'] / max(1, len(agg)), queries=len(sts))
            if bad:
                if r['name'] in SAMPLERS:
                    b, detail = concrete_violation(r['name'])
                elif r['name'].startswith('datasets.'):
                    b, detail = concrete_dataset_violation(r['name'])
                else:
                    b, detail = False, ''
                if b:
                    ck.violation(r['name'].split(' ')[0], f'{nm}: {detail}', {'name': r['name']})
                else:
                    ck.inconcl(f'{nm}: {bad[0]}; not reproduced on the real code')
    n = 0
    for name in SAMPLERS:
        b, detail = concrete_violation(name)
        n += 1
        if b:
            ck.violation(name.split(' ')[0], detail, {'name': name})
    for dn in DATASETS:
        b, detail = concrete_dataset_violation('datasets.' + dn)
        n += 1
        if b:
            ck.violation('datasets.' + dn, detail, {'name': 'datasets.' + dn})
    ck.traces_validated = n
    return ck.finish()
