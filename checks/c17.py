"""C17 - vine pair-copula data flow, likelihood and sampling are coherent.

The real Tree.fit / prepare_next_tree / Edge.get_child_edge / get_conditional_uni /
get_likelihood / VineCopula.get_likelihood / _sample_row run with pair copulas as stubs whose
h-function and density values are fresh symbols *labelled* with their meaning F(x | S).  The
oracle is the textbook recursion: edge (a,b | D) takes F(a|D), F(b|D) and produces F(a|D+b),
F(b|D+a); the vine log-likelihood is the sum over all edges of log c_e(F(a|D), F(b|D))."""
import time
import warnings

import numpy as np
import pandas as pd
import z3

import copulas.multivariate.tree as TR
import copulas.multivariate.vine as VN
import copulas.utils as UT
from copulas.bivariate.base import CopulaTypes
from copulas.multivariate.vine import VineCopula
from copulas.utils import EPSILON

from symx.core import LOG, Ctx, SymReal, explore, objarr, sym, tz
from symx.report import Check
from symx.rng import RNGModel
from symx.shim import Havoc, NPShim, ns, patched, uses_havoc
from . import gm, stubs
from .c16 import sym_tau, structure_errors
from .copsuite import pool_map


class Lab:
    """labels of symbolic arrays: name of first element's symbol -> (variable, frozenset(conditioning))"""

    def __init__(self):
        self.by_name = {}

    @staticmethod
    def key(arr):
        a = np.asarray(arr, dtype=object).ravel()
        x = a[0]
        return str(tz(x)) if isinstance(x, SymReal) else repr(x)

    def put(self, arr, label):
        self.by_name[self.key(arr)] = label

    def get(self, arr):
        return self.by_name.get(self.key(arr))


class LBiv:
    """labelled stand-in for Bivariate inside the tree / vine modules"""
    lab = None
    calls = None
    n = 0
    epoch = 0            # every build() gets its own theta range: a copula object that outlives its vine is recognisable
    h_override = None

    def __init__(self, copula_type=None, random_state=None):
        self.copula_type = copula_type
        self.theta = None

    @classmethod
    def reset(cls):
        cls.lab = Lab()
        cls.calls = []
        cls.n = 0
        cls.epoch += 1
        cls.h_override = None

    @classmethod
    def select_copula(cls, X):
        X = np.asarray(X, dtype=object)
        cls.n += 1
        th = 1.0 + cls.n + 1000.0 * cls.epoch
        fam = [CopulaTypes.CLAYTON, CopulaTypes.FRANK, CopulaTypes.GUMBEL][cls.n % 3]
        cls.calls.append({'op': 'select', 'a': cls.lab.get(X[:, 0]), 'b': cls.lab.get(X[:, 1]), 'fam': fam, 'theta': th})
        c = LBiv(fam)
        c.theta = th
        return c

    def _fresh(self, kind, X):
        X = np.asarray(X, dtype=object)
        out = []
        for r in range(len(X)):
            LBiv.n += 1
            v = SymReal(z3.Real(f'{kind}#{LBiv.n}'))
            Ctx.cur.assume(v.t > 0)
            if kind == 'h':
                Ctx.cur.assume(v.t < 1)
            out.append(v)
        return objarr(out)

    def partial_derivative(self, X):
        X = np.asarray(X, dtype=object)
        la, lb = LBiv.lab.get(X[:, 0]), LBiv.lab.get(X[:, 1])
        if LBiv.h_override is not None:
            out = np.full(len(X), LBiv.h_override)
        else:
            out = self._fresh('h', X)
        new = None
        if la is not None and lb is not None:
            new = (la[0], frozenset(la[1] | {lb[0]}))
            if LBiv.h_override is None:
                LBiv.lab.put(out, new)
        LBiv.calls.append({'op': 'h', 'a': la, 'b': lb, 'fam': self.copula_type, 'theta': self.theta, 'out': out, 'label': new})
        return out

    def probability_density(self, X):
        X = np.asarray(X, dtype=object)
        la, lb = LBiv.lab.get(X[:, 0]), LBiv.lab.get(X[:, 1])
        out = self._fresh('c', X)
        LBiv.calls.append({'op': 'c', 'a': la, 'b': lb, 'fam': self.copula_type, 'theta': self.theta, 'out': out})
        return out

    def percent_point(self, y, V):
        y = np.asarray(y, dtype=object)
        out = self._fresh('h', y.reshape(-1, 1))
        LBiv.calls.append({'op': 'ppf', 'fam': self.copula_type, 'theta': self.theta, 'y': y, 'V': np.asarray(V, dtype=object), 'out': out})
        return out


def patches(rng=None):
    sh = NPShim(havoc_empty=True, force_obj=True, random=rng)
    kt = stubs.KendallStub('kt', check_const=False)
    return patched(TR, np=sh, Bivariate=LBiv, scipy=ns(stats=ns(kendalltau=kt))), patched(VN, np=sh, Bivariate=LBiv)


def build(ctx, d, tree_type, rows, concrete_tau=None, truncated=None):
    """fit the trees with the real code; returns the vine"""
    Havoc.reset()
    LBiv.reset()
    if concrete_tau is None:
        tau, cons = sym_tau(d)
        ctx.assume(*cons)
    else:
        tau = concrete_tau
    with warnings.catch_warnings():
        warnings.simplefilter('ignore')
        v = VineCopula(tree_type)
    v.n_var, v.n_sample = d, rows
    v.tau_mat = tau
    U = np.empty((rows, d), dtype=object)
    for r in range(rows):
        for j in range(d):
            U[r, j] = sym(f'u_{r}_{j}')
            ctx.assume(U[r, j].t > 0, U[r, j].t < 1)
    for j in range(d):
        LBiv.lab.put(U[:, j], (j, frozenset()))
    v.u_matrix = U
    v.truncated = truncated or d
    v.depth = d - 1
    v.trees = []
    v.columns = [f'v{j}' for j in range(d)]
    v.train_vine(tree_type)
    v.fitted = True
    return v


def flow_errors(v):
    """edge-by-edge comparison with the textbook recursion"""
    errs = []
    sel = [c for c in LBiv.calls if c['op'] == 'select']
    hs = [c for c in LBiv.calls if c['op'] == 'h']
    si = 0
    for k, t in enumerate(v.trees, start=1):
        for e in t.edges:
            D = frozenset(e.D)
            want = {(e.L, D), (e.R, D)}
            if si >= len(sel):
                errs.append(f'tree {k} edge ({e.L},{e.R}|{sorted(D)}): no select_copula call')
                continue
            # find the select call that produced this edge's theta
            mine = [c for c in sel if c['theta'] == e.theta and c['fam'] == e.name]
            if len(mine) != 1:
                errs.append(f'tree {k} edge ({e.L},{e.R}|{sorted(D)}): family/theta are not the result of one select_copula call')
                continue
            c = mine[0]
            if {c['a'], c['b']} != want:
                errs.append(f'tree {k} edge ({e.L},{e.R}|{sorted(D)}): select_copula saw {c["a"]},{c["b"]} instead of F({e.L}|D),F({e.R}|D)')
            # the two h calls of prepare_next_tree for this edge
            mh = [h for h in hs if h['theta'] == e.theta and h['fam'] == e.name]
            if len(mh) != 2:
                errs.append(f'tree {k} edge ({e.L},{e.R}|{sorted(D)}): {len(mh)} h-function calls with the edge copula, expected 2')
                continue
            if e.U is None or len(e.U) != 2:
                errs.append(f'tree {k} edge: no pseudo-observations attached')
                continue
            l0, l1 = LBiv.lab.get(e.U[0]), LBiv.lab.get(e.U[1])
            if l0 != (e.L, frozenset(D | {e.R})) or l1 != (e.R, frozenset(D | {e.L})):
                errs.append(f'tree {k} edge ({e.L},{e.R}|{sorted(D)}): U = [{l0}, {l1}] instead of [F({e.L}|D+{e.R}), F({e.R}|D+{e.L})]')
            for h in mh:
                if h['a'] is None or h['b'] is None or {(h['a'][0], h['a'][1]), (h['b'][0], h['b'][1])} != want:
                    errs.append(f'tree {k} edge ({e.L},{e.R}|{sorted(D)}): h-function evaluated at {h["a"]},{h["b"]}')
    return errs


def flow_case(d, tree_type, rows=2):
    def fn(ctx):
        p1, p2 = patches()
        with p1, p2:
            v = build(ctx, d, tree_type, rows)
            errs = structure_errors(v, d, tree_type, d) + flow_errors(v)
        return errs
    paths, ex, _ = explore(fn, max_paths=20000, tlimit=400)
    res = []
    bad = []
    taus = []
    for p in paths:
        if p.status != 'ok':
            bad.append(f'{p.status}: {type(p.exc).__name__}: {str(p.exc)[:100]}')
        elif p.value:
            bad.extend(p.value[:2])
        if (p.status != 'ok' or p.value) and len(taus) < 3:
            from symx.core import model_value
            s_ = z3.Solver()
            s_.add(*p.ctx.pc)
            if s_.check() == z3.sat:
                m_ = s_.model()
                taus.append({f't{i}{j}': model_value(m_, z3.Real(f't{i}{j}')) for i in range(d) for j in range(i + 1, d)})
    flow_case.taus = taus
    res.append((f'{tree_type} d={d}: every edge copula = select_copula(F(a|D), F(b|D)); U = [F(a|D+b), F(b|D+a)] on all {len(paths)} paths',
                'unsat' if not bad and ex else ('unknown' if not bad else 'sat'), bad[:3]))
    return res, len(paths)


def clamp_case():
    """h-function values exactly 0 / 1 are moved strictly inside (0,1)"""
    res = []
    for hv, want in ((0.0, float(EPSILON)), (1.0, 1 - float(EPSILON))):
        def fn(ctx):
            p1, p2 = patches()
            with p1, p2:
                LBiv.reset()
                tau = np.array([[1.0, 0.5], [0.5, 1.0]])
                Havoc.reset()
                with warnings.catch_warnings():
                    warnings.simplefilter('ignore')
                    v = VineCopula('regular')
                v.n_var, v.n_sample, v.tau_mat = 2, 2, tau
                v.u_matrix = np.array([[0.2, 0.3], [0.6, 0.7]])
                v.truncated, v.depth, v.trees = 2, 1, []
                LBiv.h_override = hv
                v.train_vine('regular')
            return v.trees[0].edges[0].U
        paths, ex, _ = explore(fn)
        ok = len(paths) == 1 and paths[0].status == 'ok' and np.allclose(np.asarray(paths[0].value, dtype=float), want, rtol=0, atol=0)
        res.append((f'pseudo-observation {hv} is replaced by {want}', 'unsat' if ok else 'sat', [] if ok else [str(paths[0].value if paths and paths[0].status == "ok" else paths[0].exc if paths else None)]))
    return res, 2


def likelihood_case(d, tree_type, truncated=None):
    """get_likelihood(u) = sum over all edges of log c_e(F(a|D), F(b|D)); no uninitialised memory.
    The tau matrix is symbolic: every structure the construction can produce is covered."""
    def fn(ctx):
        p1, p2 = patches()
        with p1, p2:
            v = build(ctx, d, tree_type, 1, truncated=truncated)
            n_fit = len(LBiv.calls)
            x = np.empty((1, d), dtype=object)
            for j in range(d):
                x[0, j] = sym(f'q_{j}')
                ctx.assume(x[0, j].t > 0, x[0, j].t < 1)
                LBiv.lab.put(x[:, j], (j, frozenset()))
            val = v.get_likelihood(x)
            calls = LBiv.calls[n_fit:]
        return v, val, calls
    paths, ex, _ = explore(fn, max_paths=20000, tlimit=400)
    res = []
    bad = []
    for p in paths:
        if p.status != 'ok':
            bad.append(f'get_likelihood raises {type(p.exc).__name__}: {str(p.exc)[:120]}')
            continue
        v, val, calls = p.value
        cs = [c for c in calls if c['op'] == 'c']
        edges = [(k, e) for k, t in enumerate(v.trees, start=1) for e in t.edges]
        if len(v.trees) != min(d - 1, truncated or d):
            bad.append(f'{len(v.trees)} trees for d={d}, truncated={truncated}')
        if len(cs) != len(edges):
            bad.append(f'{len(cs)} density evaluations for {len(edges)} edges')
            continue
        spec = None
        for (k, e), c in zip(edges, cs):
            D = frozenset(e.D)
            if c['a'] is None or c['b'] is None or {c['a'], c['b']} != {(e.L, D), (e.R, D)}:
                bad.append(f'tree {k} edge ({e.L},{e.R}|{sorted(D)}): density evaluated at {c["a"]},{c["b"]} instead of F({e.L}|D),F({e.R}|D)')
            if c['fam'] != e.name or c['theta'] != e.theta:
                bad.append(f'tree {k} edge ({e.L},{e.R}|{sorted(D)}): density of another copula')
            t = LOG(tz(c['out'][0]))
            spec = t if spec is None else spec + t
        if not isinstance(val, SymReal):
            bad.append(f'likelihood is not a value: {val!r}')
            continue
        if uses_havoc(val.t):
            bad.append('likelihood depends on uninitialised memory (np.empty entries)')
            continue
        s = z3.Solver()
        s.set('timeout', 20000)
        s.add(*p.ctx.pc)
        s.add(val.t != spec)
        if s.check() != z3.unsat:
            bad.append('likelihood is not the sum of the log pair-copula densities')
    res.append((f'{tree_type} d={d} truncated={truncated or "no"}: get_likelihood = sum_e log c_e(F(a|D),F(b|D)), deterministic, no uninitialised reads ({len(paths)} paths)',
                'unsat' if not bad and ex else ('unknown' if not bad else 'sat'), bad[:3]))
    return res, len(paths)


def sample_case(d, tree_type):
    def fn(ctx):
        rng = RNGModel()
        p1, p2 = patches(rng)
        with p1, p2, patched(UT, np=NPShim(havoc_empty=False, random=rng)):
            rs = np.random.RandomState(d + len(tree_type))
            T = rs.uniform(-0.9, 0.9, size=(d, d))
            T = (T + T.T) / 2
            np.fill_diagonal(T, 1.0)
            if d == 2:
                # an earlier model in the same process, fitted and sampled: nothing of it may leak into the model under test
                v0 = build(ctx, 2, tree_type, 2, concrete_tau=np.array([[1.0, -0.4], [-0.4, 1.0]]))
                v0.ppfs = [gm.StubUni(j).percent_point for j in range(2)]
                v0.random_state = None
                v0.sample(1)
                del rng.requests[:]
            v = build(ctx, d, tree_type, 2, concrete_tau=T)
            unis = [gm.StubUni(j) for j in range(d)]
            v.ppfs = [u.percent_point for u in unis]
            v.unis = unis
            v.fitted = True
            v.random_state = None
            n0 = len(LBiv.calls)
            out = v.sample(2)
            calls = LBiv.calls[n0:]
        return out, v, calls, list(rng.requests)
    paths, ex, _ = explore(fn, max_paths=5000, tlimit=300)
    bad = []
    for p in paths:
        if p.status != 'ok':
            bad.append(f'sample raises {type(p.exc).__name__}: {str(p.exc)[:120]}')
            continue
        out, v, calls, req = p.value
        if not (isinstance(out, pd.DataFrame) and list(out.columns) == v.columns and len(out) == 2):
            bad.append(f'schema: {getattr(out, "shape", None)}')
            continue
        for x in out.to_numpy().flat:
            if not isinstance(x, SymReal) or not (z3.is_app(x.t) and x.t.decl().eq(gm.QJ)):
                bad.append(f'a sampled value is not a marginal quantile: {x!r}')
                break
        # column j holds quantiles of marginal j
        for j, c in enumerate(v.columns):
            for x in out[c]:
                if isinstance(x, SymReal) and z3.is_app(x.t) and x.t.decl().eq(gm.QJ) and x.t.arg(0).as_long() != j:
                    bad.append(f'column {c} holds a quantile of marginal {x.t.arg(0)}')
        own = {(e.name, e.theta) for t in v.trees for e in t.edges}
        for c in calls:
            if c['op'] in ('ppf', 'h', 'c') and (c['fam'], c['theta']) not in own:
                bad.append(f'sampling evaluates a pair copula ({c["fam"]}, theta label {c["theta"]}) that is not on any edge of this model')
                break
        if d == 2:
            # second visited variable = Q(clamp(h^-1(u_b | u_a)))
            pp = [c for c in calls if c['op'] == 'ppf']
            if len(pp) != 2:
                bad.append(f'{len(pp)} conditional-inverse calls for 2 rows of a 2-column vine')
            else:
                for r_, c in enumerate(pp):
                    yt, vt = tz(np.asarray(c['y'], dtype=object).flat[0]), tz(np.asarray(c['V'], dtype=object).flat[0])
                    if yt.eq(vt):
                        bad.append(f'row {r_}: the conditional inverse is evaluated at (y, v) with y and v the same uniform draw')
                        break
                    # the first visited variable is the quantile of the conditioning uniform itself
                    row = [x.t for x in out.iloc[r_] if isinstance(x, SymReal)]
                    if not any(z3.is_app(t_) and t_.decl().eq(gm.QJ) and t_.arg(1).eq(vt) for t_ in row):
                        bad.append(f'row {r_}: no output column is the marginal quantile of the conditioning uniform')
                        break
    return [(f'{tree_type} d={d}: sample(2) has 2 rows, training columns in order, every entry a quantile of its own marginal ({len(paths)} paths)',
             'unsat' if not bad and ex else ('unknown' if not bad else 'sat'), bad[:3])], len(paths)


def task(a):
    t0 = time.time()
    try:
        kind = a[0]
        if kind == 'flow':
            r, n = flow_case(a[1], a[2])
            if r and r[0][1] != 'unsat':
                r = [(r[0][0], r[0][1], r[0][2] + [{'taus': getattr(flow_case, 'taus', [])}])]
        elif kind == 'clamp':
            r, n = clamp_case()
        elif kind == 'lik':
            r, n = likelihood_case(a[1], a[2], a[3] if len(a) > 3 else None)
        else:
            r, n = sample_case(a[1], a[2])
        return (a, r, n, time.time() - t0)
    except BaseException:
        import traceback
        return (a, [('harness error ' + traceback.format_exc()[-1500:], 'error', [])], 0, 0.0)


# ---------------------------------------------------------------- concrete replay on the real code

def real_vine(d, tree_type, seed=0, tau=None, truncated=None):
    warnings.simplefilter('ignore')
    rs = np.random.RandomState(seed)
    if tau is not None:
        from .c16 import data_for_tau
        X = data_for_tau(tau, d, n=200, seed=seed)
    else:
        A = rs.normal(size=(d, d))
        cov = A @ A.T + 0.5 * np.eye(d)
        X = pd.DataFrame(rs.multivariate_normal(np.zeros(d), cov, size=150), columns=[f'v{j}' for j in range(d)])
    v = VineCopula(tree_type, random_state=1)
    if truncated is None:
        v.fit(X)
    else:
        v.fit(X, truncated=truncated)
    return v, X


def concrete_violation(kind, d, tree_type, taus=(), seeds=(0, 1, 2, 3)):
    """try the model's tau order types first, then generic tables"""
    cands = [(t, s_) for t in taus for s_ in seeds[:2]] + [(None, s_) for s_ in seeds]
    rs = np.random.RandomState(17)
    for _ in range(6):
        cands.append(({f't{i}{j}': rs.uniform(-0.8, 0.8) for i in range(d) for j in range(i + 1, d)}, 0))
    for tau, sd in cands:
        b, detail = _concrete_violation(kind, d, tree_type, tau, sd)
        if b:
            return True, detail + f' [tau={tau}, seed={sd}]'
    return False, ''


def _near_copy_violation(tree_type, seed):
    """tables with nearly comonotone columns drive h-function values to exactly 0 or 1 in floats:
    the attached pseudo-observations must still be strictly inside (0,1)"""
    warnings.simplefilter('ignore')
    rs = np.random.RandomState(seed)
    a = rs.normal(size=300)
    for eps in (1e-3, 1e-2):
        X = pd.DataFrame({'v0': a, 'v1': a + eps * rs.normal(size=300)})
        v = VineCopula(tree_type)
        try:
            v.fit(X, truncated=1)
        except Exception as e:
            return True, f'near-copy table: fit raises {type(e).__name__}: {e}'
        for t in v.trees:
            for e in t.edges:
                if e.U is not None and (np.any(np.asarray(e.U) <= 0) or np.any(np.asarray(e.U) >= 1)):
                    return True, f'near-copy table (noise {eps}): pseudo-observations of edge ({e.L},{e.R}) hit {np.min(e.U)} / {np.max(e.U)}, not strictly inside (0,1)'
    return False, ''


def _concrete_violation(kind, d, tree_type, tau=None, seed=0):
    from copulas.bivariate import Bivariate, select_copula
    if kind == 'clamp':
        b, detail = _near_copy_violation(tree_type, seed)
        if b:
            return b, detail
    try:
        v, X = real_vine(d, tree_type, seed, tau)
    except Exception as e:
        return True, f'VineCopula({tree_type!r}).fit raises {type(e).__name__}: {e}'
    try:
        if kind in ('flow', 'clamp'):
            # recompute every edge from the textbook recursion with the real pair copulas
            F = {(j, frozenset()): v.u_matrix[:, j] for j in range(d)}
            for k, t in enumerate(v.trees, start=1):
                for e in t.edges:
                    D = frozenset(e.D)
                    a, b = F[(e.L, D)], F[(e.R, D)]
                    c = select_copula(np.column_stack((a, b)))
                    c2 = select_copula(np.column_stack((b, a)))
                    if not any(cc.copula_type == e.name and np.isclose(cc.theta, e.theta) for cc in (c, c2)):
                        return True, f'tree {k} edge ({e.L},{e.R}|{sorted(D)}): copula {e.name},{e.theta} is not select_copula of its inputs ({c.copula_type},{c.theta})'
                    cop = Bivariate(copula_type=e.name)
                    cop.theta = e.theta
                    lr = np.clip(cop.partial_derivative(np.column_stack((a, b))), EPSILON, 1 - EPSILON)
                    rl = np.clip(cop.partial_derivative(np.column_stack((b, a))), EPSILON, 1 - EPSILON)
                    if not (np.allclose(e.U[0], lr, atol=1e-9) and np.allclose(e.U[1], rl, atol=1e-9)):
                        return True, f'tree {k} edge ({e.L},{e.R}|{sorted(D)}): attached pseudo-observations are not the h-functions of its inputs'
                    if np.any(e.U <= 0) or np.any(e.U >= 1):
                        return True, f'tree {k} edge: pseudo-observations not strictly inside (0,1)'
                    F[(e.L, frozenset(D | {e.R}))] = e.U[0]
                    F[(e.R, frozenset(D | {e.L}))] = e.U[1]
        for vv in ([v] + [real_vine(d, tree_type, seed, tau, truncated=tr)[0] for tr in sorted({1, d - 1, d} - {0})] if kind == 'lik' else []):
            v = vv
            u = np.random.RandomState(3).uniform(0.1, 0.9, size=(1, d))
            got = v.get_likelihood(u)
            got2 = v.get_likelihood(u.copy())
            F = {(j, frozenset()): u[:, j] for j in range(d)}
            tot = 0.0
            for t in v.trees:
                for e in t.edges:
                    D = frozenset(e.D)
                    a, b = F[(e.L, D)], F[(e.R, D)]
                    cop = Bivariate(copula_type=e.name)
                    cop.theta = e.theta
                    tot += float(np.log(cop.probability_density(np.column_stack((a, b))))[0])
                    F[(e.L, frozenset(D | {e.R}))] = cop.partial_derivative(np.column_stack((a, b)))
                    F[(e.R, frozenset(D | {e.L}))] = cop.partial_derivative(np.column_stack((b, a)))
            if not (np.isclose(got, tot, rtol=1e-6) and (got == got2 or (got != got and got2 != got2))):
                return True, f'get_likelihood={got} (repeat {got2}) but sum of log pair densities={tot} (fit with truncated={v.truncated}, {len(v.trees)} trees)'
        if kind == 'sample':
            out = v.sample(4)
            if list(out.columns) != list(X.columns) or len(out) != 4 or out.isna().any().any():
                return True, f'sample: schema/NaN {out.shape} {list(out.columns)} nan={out.isna().any().any()}'
            # two models in one process: the second samples with its own pair copula
            from scipy import stats
            rs = np.random.RandomState(seed + 40)
            a = rs.normal(size=300)
            taus = []
            for rho in ((0.92, -0.85) if (tau is None and seed == 0) else ()):
                Y = pd.DataFrame({'p': a, 'q': rho * a + np.sqrt(1 - rho * rho) * rs.normal(size=300)})
                w = VineCopula(tree_type, random_state=2)
                w.fit(Y)
                S = w.sample(300)
                taus.append((stats.kendalltau(Y['p'], Y['q'])[0], stats.kendalltau(S['p'], S['q'])[0]))
            for tr_, sm_ in taus:
                if not np.isfinite(sm_) or tr_ * sm_ <= 0 or abs(sm_) < 0.25 or abs(sm_ - tr_) > 0.2:
                    return True, (f'two {tree_type} vines fitted one after the other on 2-column tables with Kendall tau {taus[0][0]:+.2f} and '
                                  f'{taus[1][0]:+.2f}: their samples have tau {taus[0][1]:+.2f} and {taus[1][1]:+.2f}')
    except Exception as e:
        return True, f'{kind} on a fitted {tree_type} vine (d={d}) raises {type(e).__name__}: {e}'
    return False, ''


def replay(dt):
    bad, detail = concrete_violation(dt['kind'], dt['d'], dt['type'])
    print(detail)
    return bad


def run(tier, seed):
    ck = Check('C17', tier, seed, 'model_checking',
               'symbolic execution of the real vine fitting / likelihood / sampling code with labelled stub pair copulas; the '
               'textbook h-recursion is the oracle on every feasible path')
    ck.encode(TR.Tree.prepare_next_tree, TR.Edge.get_conditional_uni, TR.Edge.get_child_edge, TR.Tree.get_likelihood,
              TR.Edge.get_likelihood, VineCopula.get_likelihood, VineCopula._sample_row, VineCopula.sample, VineCopula.train_vine)
    ck.stubs = ['Bivariate (select_copula, partial_derivative, probability_density, percent_point): labelled fresh symbols',
                'kendalltau (deeper levels): fresh tau', 'np.empty: havoc', 'np.random: RNG model', 'marginal quantiles: uninterpreted Q_j']
    dmax = 4 if tier == 'quick' else 4
    ck.bounds = {'columns d': f'2..{dmax} (data flow: all structures), 2..4 (likelihood, one generic structure per type), 2..3 (sampling)', 'rows': 2}
    ck.outside = ['"reproduces the fitted marginals and the Kendall tau of the selected pair copula" for 2-column tables (statistical)',
                  'the numerics of the pair copulas themselves (C06-C08)']
    ck.assumptions = ['labels: an array denotes F(x|S) when it was produced by the h-function of a copula applied to F(x|S\\\\y), F(y|S\\\\y)']
    jobs = [('clamp',)]
    for t in ('center', 'direct', 'regular'):
        for d in (2, 3, 4):
            jobs.append(('flow', d, t))
            jobs.append(('lik', d, t))
            for tr in sorted({1, d - 1} - {0}):
                jobs.append(('lik', d, t, tr))
        for d in (2, 3):
            jobs.append(('sample', d, t))
    for a, res, n, secs in pool_map(task, jobs):
        ck.paths += n
        ck.states += max(n, 1)
        for (name, st, bad) in res:
            ck.transitions += 1
            ck.ob(name, st if st in ('unsat', 'sat', 'unknown') else 'error', secs)
            if st == 'unsat':
                continue
            kind = a[0]
            d, t = (a[1], a[2]) if len(a) > 2 else (3, 'regular')
            taus = [x['taus'] for x in bad if isinstance(x, dict) and 'taus' in x]
            taus = taus[0] if taus else []
            bad = [x for x in bad if not isinstance(x, dict)]
            b, detail = concrete_violation(kind, d, t, taus)
            if not b and kind == 'lik':
                for d2 in (3, 4, 5):
                    b, detail = concrete_violation(kind, d2, t)
                    if b:
                        d = d2
                        break
            if b:
                ck.violation(f'{kind}:{t}', f'{name}: {bad} -- {detail}', {'kind': kind, 'd': d, 'type': t})
            else:
                ck.inconcl(f'{name}: {st} {bad}; not reproduced on the real code')
    n = 0
    for t in ('center', 'direct', 'regular'):
        for kind, d in (('flow', 4), ('lik', 3), ('sample', 3)):
            n += 1
            b, detail = concrete_violation(kind, d, t)
            if b:
                ck.violation(f'{kind}:{t}', f'conformance {kind} {t} d={d}: {detail}', {'kind': kind, 'd': d, 'type': t})
    ck.traces_validated = n
    return ck.finish()
