"""C02 - the fitted Gaussian-copula correlation is a valid, correctly computed matrix."""
import itertools
import sys
import time

import numpy as np
import pandas as pd
import z3

import copulas.multivariate.gaussian as G
from copulas.multivariate.gaussian import GaussianMultivariate
from copulas.utils import EPSILON

from symx.core import Ctx, SymReal, explore, objarr, tz, RV
from symx.report import Check
from symx.shim import det, patched
from . import gm
from .c13 import score
from .copsuite import pool_map

NAMES = ['c', 'a', 'b', 'd']


def corr_paths(d, rows):
    cols = NAMES[:d]
    xs = [[SymReal(z3.Real(f'x_{r}_{j}')) for j in range(d)] for r in range(rows)]

    def fn(ctx):
        cs = gm.CorrStub()
        m = gm.fitted_model(cols, None)
        X = pd.DataFrame(objarr(xs), columns=cols)
        with gm.gm_patches() as sh, patched(pd.DataFrame, corr=lambda self, *a, **k: cs(self, *a, **k)):
            sh.linalg._owner.force_sym_cond = True
            m.correlation = m._get_correlation(X)
            dct = m.to_dict()
            calls = list(cs.calls)
            # reference, independent of how the code called corr(): the Pearson contract applied to the documented
            # normal-score frame (the stub is a deterministic function of the data)
            Z = objarr([[SymReal(score(j, xs[r][j])) for j in range(d)] for r in range(rows)])
            cs(pd.DataFrame(Z, columns=cols))
        return {'corr': m.correlation, 'calls': calls, 'dict': dct, 'const': ctx.notes.get('corr_const'),
                'M': ctx.notes.get('corr_M'), 'cond': [e for e in ctx.log if e[0] == 'cond']}
    with gm.gm_patches():
        paths, ex, dt = explore(fn, max_paths=20000, tlimit=300)
    return paths, ex, xs, cols


def analyse(d, rows):
    t0 = time.time()
    paths, ex, xs, cols = corr_paths(d, rows)
    res = []
    nq = 0
    eps = RV(float(EPSILON))
    for p in paths:
        nq += p.ctx.queries
        if p.status != 'ok':
            res.append((f'_get_correlation raises {type(p.exc).__name__}: {str(p.exc)[:100]}', 'sat'))
            continue
        v = p.value
        C = v['corr']
        const, M = v['const'], v['M']
        s = z3.Solver()
        s.set('timeout', 60000)
        s.add(*p.ctx.pc)

        def valid(goal, name):
            nonlocal nq
            s.push()
            s.add(z3.Not(goal))
            r = s.check()
            nq += 1
            s.pop()
            res.append((name, str(r)))
        okl = isinstance(C, pd.DataFrame) and list(C.index) == cols and list(C.columns) == cols
        res.append(('labelled by the training columns in order', 'unsat' if okl else 'sat'))
        if not okl:
            continue
        A = C.to_numpy()
        fin = all(isinstance(A[i, j], SymReal) or (isinstance(A[i, j], (int, float, np.floating)) and np.isfinite(A[i, j]))
                  for i in range(d) for j in range(d))
        res.append(('every entry finite (NaN replaced)', 'unsat' if fin else 'sat'))
        if not fin:
            continue
        T = lambda i, j: tz(A[i, j])  # noqa
        # the frame handed to corr() is the clipped normal-score matrix, training order
        calls = v['calls']
        okc = len(calls) == 1 and calls[0][0].shape == (rows, d)
        if okc:
            Z = calls[0][0]
            okc = all(z3.is_true(z3.simplify(tz(Z[r, j]) == score(j, xs[r][j]))) for r in range(rows) for j in range(d))
        res.append(('corr() is applied to PhiInv(clip(F_j(x_rj))), columns in training order', 'unsat' if okc else 'sat'))
        ridge_possible = len(v['cond']) == 1
        res.append(('conditioning test evaluated once on the NaN-free matrix', 'unsat' if ridge_possible else 'sat'))
        goals = []
        for i in range(d):
            for j in range(d):
                goals.append(T(i, j) == T(j, i))
                if i != j:
                    want = RV(0) if (const[i] or const[j]) else tz(M[i, j])
                    goals.append(T(i, j) == want)
                    goals.append(z3.And(T(i, j) >= -1, T(i, j) <= 1))
        valid(z3.And(*goals), 'symmetric; off-diagonal = Pearson value (0 for constant columns), within [-1,1]')
        # diagonal: all entries get the same ridge r in {0, EPS}
        base = [RV(0) if const[i] else RV(1) for i in range(d)]
        valid(z3.Or(z3.And(*[T(i, i) == base[i] for i in range(d)]), z3.And(*[T(i, i) == base[i] + eps for i in range(d)])),
              'diagonal = 1 (0 for constant columns), plus exactly EPS*I when regularised')
        if d <= 3:
            minors = []
            for k in range(1, d + 1):
                for sub in itertools.combinations(range(d), k):
                    minors.append(tz(det(A[np.ix_(sub, sub)])) >= 0)
            valid(z3.And(*minors), 'positive semi-definite (all principal minors >= 0)')
        # regularised branch is taken exactly when the condition number is large
        dc = v['dict']['correlation']
        okd = all(tz(dc[i][j]).eq(T(i, j)) or z3.is_true(z3.simplify(tz(dc[i][j]) == T(i, j))) for i in range(d) for j in range(d))
        res.append(("to_dict()['correlation'] holds the same numbers", 'unsat' if okd else 'sat'))
    return {'d': d, 'rows': rows, 'res': res, 'paths': len(paths), 'exhaustive': ex, 'nq': nq, 'secs': time.time() - t0}


def task(a):
    try:
        return analyse(*a)
    except BaseException:
        import traceback
        return {'d': a[0], 'rows': a[1], 'res': [('harness error ' + traceback.format_exc()[-1500:], 'error')], 'paths': 0,
                'exhaustive': False, 'nq': 0, 'secs': 0}


def concrete_violation():
    """real code on tables with duplicated, perfectly (anti-)correlated and constant columns"""
    from scipy import stats
    from copulas.univariate import GaussianUnivariate
    rs = np.random.RandomState(11)
    n = 60
    a = rs.normal(size=n)
    b = 0.5 * a + rs.normal(size=n)
    tables = {
        'plain': pd.DataFrame({'c': a, 'a': b, 'b': rs.normal(size=n)}),
        'duplicate': pd.DataFrame({'c': a, 'a': a.copy(), 'b': b}),
        'anti': pd.DataFrame({'c': a, 'a': -a, 'b': b}),
        'constant': pd.DataFrame({'c': a, 'a': np.full(n, 3.0), 'b': b}),
        'outlier': pd.DataFrame({'c': np.append(a, [-14.0, 0.3]), 'a': np.append(b, [9.0, -0.2]), 'b': np.append(rs.normal(size=n), [0.1, 17.0])}),
    }
    for nm, t in tables.items():
        m = GaussianMultivariate(distribution=GaussianUnivariate)
        try:
            m.fit(t)
        except Exception as e:
            return True, f'{nm}: fit raises {type(e).__name__}: {e}'
        C = m.correlation
        A = C.to_numpy()
        if list(C.index) != list(t.columns) or list(C.columns) != list(t.columns):
            return True, f'{nm}: labels {list(C.index)}'
        if not np.all(np.isfinite(A)) or not np.allclose(A, A.T) or np.abs(A - np.diag(np.diag(A))).max() > 1 + 1e-9:
            return True, f'{nm}: not finite/symmetric/in range'
        if np.linalg.eigvalsh(A).min() < -1e-8:
            return True, f'{nm}: not PSD'
        U = np.column_stack([np.clip(m.univariates[j].cdf(t[c].to_numpy()), EPSILON, 1 - EPSILON) for j, c in enumerate(t.columns)])
        with np.errstate(all='ignore'):
            P = np.nan_to_num(pd.DataFrame(stats.norm.ppf(U)).corr().to_numpy(), nan=0.0)
        off = ~np.eye(len(A), dtype=bool)
        if not np.allclose(A[off], P[off], atol=1e-9):
            return True, f'{nm}: off-diagonal entries are not the Pearson correlation of the normal scores'
        dg = np.diag(A) - np.diag(P)
        if not (np.allclose(dg, 0, atol=1e-12) or np.allclose(dg, EPSILON, rtol=1e-6)):
            return True, f'{nm}: diagonal {np.diag(A)}'
        try:
            smp = m.sample(5)
            m.probability_density(t.iloc[:3])
            if smp.isna().any().any():
                return True, f'{nm}: NaN in samples'
        except Exception as e:
            return True, f'{nm}: sampling/density fails after fit: {type(e).__name__}: {e}'
    # a refit computes the correlation through the *new* marginals: same as a fresh model fitted on the second table
    t1 = tables['plain']
    t2 = pd.DataFrame({'c': 25.0 + 3.0 * t1['b'].to_numpy() + t1['c'].to_numpy(), 'a': np.exp(t1['a'].to_numpy() / 2.0), 'b': t1['c'].to_numpy() - 7.0})
    m = GaussianMultivariate(distribution=GaussianUnivariate)
    m.fit(t1)
    m.fit(t2)
    fresh = GaussianMultivariate(distribution=GaussianUnivariate)
    fresh.fit(t2)
    if not np.allclose(m.correlation.to_numpy(), fresh.correlation.to_numpy(), atol=1e-10):
        return True, ('refit: the correlation after fit(A); fit(B) differs from a fresh fit(B) by '
                      f'{np.abs(m.correlation.to_numpy() - fresh.correlation.to_numpy()).max():.3g} (scores computed through stale marginals?)')
    return False, ''


def replay(d):
    bad, detail = concrete_violation()
    print(detail)
    return bad


def run(tier, seed):
    ck = Check('C02', tier, seed, 'model_checking',
               "symbolic execution of the real _get_correlation with pandas' corr() and np.linalg.cond as contract stubs, every "
               'pattern of constant columns and both conditioning branches; z3 decides each clause per path')
    ck.encode(GaussianMultivariate._get_correlation, GaussianMultivariate._transform_to_normal, GaussianMultivariate.to_dict)
    ck.stubs = ["DataFrame.corr(): Pearson contract (symmetric, [-1,1], unit diagonal, NaN row/col for constant columns, PSD elsewhere)",
                'np.linalg.cond: arbitrary real >= 1 (both branches explored)', 'marginals F_j, PhiInv: uninterpreted']
    cases = [(2, 2), (3, 2)] if tier == 'quick' else [(2, 2), (2, 3), (3, 2), (3, 3), (4, 2)]
    ck.bounds = {'(columns, rows)': cases, 'PSD clause': 'd <= 3 (principal minors)', 'constant columns': 'every subset (decided by forks on the scores)'}
    ck.outside = ['that pandas computes Pearson correctly', 'the numerical value of the condition number',
                  '"sampling and density still work" for singular input: covered by the concrete witness tables only']
    ck.assumptions = ['Pearson contract as above']
    for r in pool_map(task, cases):
        ck.paths += r['paths']
        ck.states += r['paths']
        ck.queries += r['nq']
        ck.solver_s += r['secs']
        if not r['exhaustive']:
            ck.inconcl(f"d={r['d']} rows={r['rows']}: exploration not exhaustive")
        agg = {}
        for name, st in r['res']:
            agg.setdefault(name, []).append(st)
        for name, sts in agg.items():
            ck.transitions += len(sts)
            bad = [x for x in sts if x != 'unsat']
            nm = f"d={r['d']} rows={r['rows']}: {name} [{len(sts)} paths]"
            ck.ob(nm, 'unsat' if not bad else bad[0], 0.0, queries=0)
            if bad:
                b, detail = concrete_violation()
                if b:
                    ck.violation(name[:60], f'{nm}: {detail}', {})
                else:
                    ck.inconcl(f'{nm}: {bad[0]}; concrete witness tables do not reproduce it')
    b, detail = concrete_violation()
    ck.traces_validated = 4
    if b:
        ck.violation('conformance', detail, {})
    return ck.finish()
