"""C04 - marginal fitting: closed-form estimators exact, truncation algebra, parameter wiring,
the KDE is built from exactly the training data with the requested options.

The DKW-style closeness of fitted CDFs (a statistical statement that also depends on scipy's MLE
optimiser) is outside this technique and not claimed."""
import time
import warnings

import numpy as np
import z3

import copulas.univariate.gaussian as M_GAUSS
import copulas.univariate.truncated_gaussian as M_TG
import copulas.univariate.uniform as M_UNI
from copulas.univariate import (BetaUnivariate, GammaUnivariate, GaussianKDE, GaussianUnivariate, LogLaplace,
                                StudentTUnivariate, TruncatedGaussian, UniformUnivariate)
from copulas.utils import EPSILON

from symx.core import Ctx, SymReal, explore, model_value, objarr, sym, tz, RV
from symx.report import Check
from symx.rng import RNGModel
from symx.trans import prove
from .c19 import FitStub, KDEStub, SLSQPStub, uni_patches
from .copsuite import pool_map


def fit_paths(cls, kw, n, nonconst=True, extra=None):
    X = [sym(f'x{i}') for i in range(n)]

    def fn(ctx):
        rng = RNGModel()
        if nonconst:
            ctx.assume(z3.Or(*[X[i].t != X[0].t for i in range(1, n)]))
        with uni_patches(rng):
            m = cls(**kw)
            m.fit(objarr(X))
        return m, list(ctx.log), list(rng.requests)
    paths, ex, _ = explore(fn, max_paths=3000, tlimit=120)
    return paths, ex, X


def gaussian(n):
    paths, ex, X = fit_paths(GaussianUnivariate, {}, n)
    bad = []
    for p in paths:
        if p.status != 'ok':
            bad.append((f'{type(p.exc).__name__}: {p.exc}', None))
            continue
        m = p.value[0]
        loc, scale = tz(m._params['loc']), tz(m._params['scale'])
        xs = [x.t for x in X]
        goal = z3.And(loc * n == z3.Sum(xs), scale >= 0, scale * scale * n == z3.Sum([(x - loc) * (x - loc) for x in xs]))
        r = prove(p.ctx.pc, goal, timeout_ms=30000)
        if r['status'] != 'unsat':
            bad.append(('loc is not the sample mean or scale not the population standard deviation', r.get('model')))
    return bad, len(paths), ex


def uniform(n):
    paths, ex, X = fit_paths(UniformUnivariate, {}, n)
    bad = []
    for p in paths:
        if p.status != 'ok':
            bad.append((f'{type(p.exc).__name__}: {p.exc}', None))
            continue
        m = p.value[0]
        loc, scale = tz(m._params['loc']), tz(m._params['scale'])
        xs = [x.t for x in X]
        goal = z3.And(z3.And(*[loc <= x for x in xs]), z3.Or(*[loc == x for x in xs]),
                      z3.And(*[loc + scale >= x for x in xs]), z3.Or(*[loc + scale == x for x in xs]))
        s = z3.Solver()
        s.add(*p.ctx.pc)
        s.add(z3.Not(goal))
        if s.check() != z3.unsat:
            bad.append(('loc is not the minimum or loc+scale not the maximum', None))
    return bad, len(paths), ex


def truncated(n, user_bounds):
    if user_bounds == 'min':
        return truncated_one_sided(n, 'minimum')
    if user_bounds == 'max':
        return truncated_one_sided(n, 'maximum')
    kw = {'minimum': sym('m_lo'), 'maximum': sym('m_hi')} if user_bounds else {}
    X = [sym(f'x{i}') for i in range(n)]

    def fn(ctx):
        rng = RNGModel()
        ctx.assume(z3.Or(*[X[i].t != X[0].t for i in range(1, n)]))
        if user_bounds:
            ctx.assume(kw['minimum'].t < kw['maximum'].t)
        with uni_patches(rng):
            m = TruncatedGaussian(**kw)
            m.fit(objarr(X))
        return m, list(ctx.log)
    paths, ex, _ = explore(fn, max_paths=2000, tlimit=120)
    bad = []
    for p in paths:
        if p.status != 'ok':
            bad.append((f'{type(p.exc).__name__}: {p.exc}', None))
            continue
        m, log = p.value
        pr = m._params
        a, b, loc, scale = tz(pr['a']), tz(pr['b']), tz(pr['loc']), tz(pr['scale'])
        xs = [x.t for x in X]
        eps = RV(float(EPSILON))
        s = z3.Solver()
        s.add(*p.ctx.pc)
        if user_bounds:
            lo, hi = kw['minimum'].t, kw['maximum'].t
            s.push()
            s.add(z3.Not(z3.And(loc + a * scale == lo, loc + b * scale == hi)))
            if s.check() != z3.unsat:
                bad.append(('support [loc+a*scale, loc+b*scale] is not the user-supplied [minimum, maximum]', None))
            s.pop()
        else:
            lo_, hi_ = loc + a * scale, loc + b * scale
            g = z3.And(z3.And(*[lo_ <= x - eps for x in xs]), z3.Or(*[lo_ == x - eps for x in xs]),
                       z3.And(*[hi_ >= x + eps for x in xs]), z3.Or(*[hi_ == x + eps for x in xs]))
            s.push()
            s.add(z3.Not(g))
            if s.check() != z3.unsat:
                bad.append(('default support is not [min - EPS, max + EPS] of the training data', None))
            s.pop()
        sl = [e for e in log if e[0] == 'slsqp']
        if len(sl) != 1:
            bad.append(('optimiser not called exactly once', None))
            continue
        bnd = sl[0][1]
        # what the property needs from the optimiser's feasible set: a positive scale (orientation of the support);
        # the particular caps on loc and scale are a heuristic of the implementation and are not demanded
        ok_b = bnd is not None and len(bnd) == 2 and bnd[1][0] is not None
        if ok_b:
            s.push()
            s.add(z3.Not(tz(bnd[1][0]) >= 0))
            ok_b = s.check() == z3.unsat
            s.pop()
        if not ok_b:
            bad.append(('the optimiser may return a non-positive scale (no lower bound 0 on scale)', None))
    # the objective: nnlf((a,b,loc,scale), X) with the same a, b formula
    def fobj(ctx):
        rng = RNGModel()
        ctx.assume(z3.Or(*[X[i].t != X[0].t for i in range(1, n)]))
        captured = {}

        def spy(func, x0, **k):
            captured['f'] = func
            captured['val'] = func((sym('L'), sym('S')))
            return SLSQPStub()(func, x0, **k)
        with uni_patches(rng):
            import copulas.univariate.truncated_gaussian as TG
            from symx.shim import patched
            with patched(TG, fmin_slsqp=spy):
                m = TruncatedGaussian(**kw)
                if user_bounds:
                    ctx.assume(kw['minimum'].t < kw['maximum'].t)
                ctx.assume(z3.Real('S') > 0)
                m.fit(objarr(X))
        return captured['val'], m
    op, _, _ = explore(fobj, max_paths=500, tlimit=60)
    for p in op:
        if p.status != 'ok':
            bad.append((f'objective trace: {type(p.exc).__name__}: {p.exc}', None))
            continue
        val, m = p.value
        t = tz(val)
        ok = z3.is_app(t) and t.decl().name().startswith('truncnorm_nnlf') and t.num_args() == 4 + n
        if ok:
            L, S_ = z3.Real('L'), z3.Real('S')
            a_, b_ = t.arg(0), t.arg(1)
            pr = m._params
            lo_t = tz(pr['loc']) + tz(pr['a']) * tz(pr['scale'])
            hi_t = tz(pr['loc']) + tz(pr['b']) * tz(pr['scale'])
            s = z3.Solver()
            s.add(*p.ctx.pc)
            s.add(z3.Not(z3.And(L + a_ * S_ == lo_t, L + b_ * S_ == hi_t, t.arg(2) == L, t.arg(3) == S_,
                                *[t.arg(4 + i) == X[i].t for i in range(n)])))
            ok = s.check() == z3.unsat
        if not ok:
            bad.append(('objective is not truncnorm.nnlf((a,b,loc,scale), X) with a=(min-loc)/scale, b=(max-loc)/scale', None))
    return bad, len(paths) + len(op), ex


def truncated_one_sided(n, which):
    """only one bound supplied: that end of the support is the user's, the other comes from the data"""
    X = [sym(f'x{i}') for i in range(n)]
    ub = sym('m_user')

    def fn(ctx):
        rng = RNGModel()
        ctx.assume(z3.Or(*[X[i].t != X[0].t for i in range(1, n)]))
        for x in X:
            ctx.assume(x.t > ub.t if which == 'minimum' else x.t < ub.t)
        with uni_patches(rng):
            m = TruncatedGaussian(**{which: ub})
            m.fit(objarr(X))
        return m
    paths, ex, _ = explore(fn, max_paths=2000, tlimit=120)
    bad = []
    eps = RV(float(EPSILON))
    for p in paths:
        if p.status != 'ok':
            bad.append((f'{type(p.exc).__name__}: {p.exc}', None))
            continue
        pr = p.value._params
        a, b, loc, scale = tz(pr['a']), tz(pr['b']), tz(pr['loc']), tz(pr['scale'])
        lo_, hi_ = loc + a * scale, loc + b * scale
        xs = [x.t for x in X]
        if which == 'minimum':
            g = z3.And(lo_ == ub.t, z3.And(*[hi_ >= x + eps for x in xs]), z3.Or(*[hi_ == x + eps for x in xs]))
        else:
            g = z3.And(hi_ == ub.t, z3.And(*[lo_ <= x - eps for x in xs]), z3.Or(*[lo_ == x - eps for x in xs]))
        s = z3.Solver()
        s.add(*p.ctx.pc)
        s.add(z3.Not(g))
        if s.check() != z3.unsat:
            bad.append((f'only {which} given: support is not [user bound, data bound]', None))
    return bad, len(paths), ex


def mle_wiring(cls, name, order):
    """the stored params, splatted into MODEL_CLASS.cdf, denote the distribution fit() returned"""
    paths, ex, X = fit_paths(cls, {}, 3)
    bad = []
    for p in paths:
        if p.status != 'ok':
            bad.append((f'{type(p.exc).__name__}: {p.exc}', None))
            continue
        m = p.value[0]
        for i, key in enumerate(order):
            t = tz(m._params.get(key)) if key in m._params else None
            if t is None or not (z3.is_app(t) and t.decl().name().startswith(f'{name}_fit_{i}_')):
                bad.append((f"_params['{key}'] is not component {i} of {name}.fit()", None))
        if set(m._params) != set(order):
            bad.append((f'parameter names {sorted(m._params)} != {sorted(order)}', None))
        # data passed to fit = the training data in order
        for key in order[:1]:
            t = tz(m._params[key])
            if z3.is_app(t) and not all(t.arg(i).eq(X[i].t) for i in range(3)):
                bad.append((f'{name}.fit was not given the training data', None))
    return bad, len(paths), ex


def kde(kw, n=3):
    paths, ex, X = fit_paths(GaussianKDE, kw, n)
    bad = []
    for p in paths:
        if p.status != 'ok':
            bad.append((f'{type(p.exc).__name__}: {p.exc}', None))
            continue
        m, log, req = p.value
        mod = m._model
        if not isinstance(mod, KDEStub):
            bad.append(('no kernel model built', None))
            continue
        if mod.bw_method != kw.get('bw_method') or (mod.weights is not kw.get('weights') and mod.weights != kw.get('weights')):
            bad.append((f'kernel model built with bw_method={mod.bw_method!r}, weights={mod.weights!r}', None))
        ds = list(mod.dataset.flat)
        if kw.get('sample_size'):
            k = kw['sample_size']
            ok = len(ds) == k and len(req) == 1 and req[0]['kind'] == 'kde.resample' and req[0]['n'] == k and \
                all(tz(a).eq(b.t) for a, b in zip(req[0]['params'], X)) and len(req[0]['params']) == n
            if not ok:
                bad.append((f'dataset is not a resample of size {k} of the kernel estimate of the training data', None))
        else:
            if not (len(ds) == n and all(tz(a).eq(b.t) for a, b in zip(ds, X))):
                bad.append(('kernel model is not built from exactly the training data', None))
    return bad, len(paths), ex


CASES = {
    'Gaussian n=2': lambda: gaussian(2), 'Gaussian n=3': lambda: gaussian(3), 'Gaussian n=4': lambda: gaussian(4),
    'Uniform n=2': lambda: uniform(2), 'Uniform n=3': lambda: uniform(3), 'Uniform n=4': lambda: uniform(4),
    'TruncatedGaussian default bounds n=3': lambda: truncated(3, False),
    'TruncatedGaussian user bounds n=3': lambda: truncated(3, True),
    'TruncatedGaussian only minimum given n=3': lambda: truncated(3, 'min'),
    'TruncatedGaussian only maximum given n=3': lambda: truncated(3, 'max'),
    'Beta: params = beta.fit order (a,b,loc,scale)': lambda: mle_wiring(BetaUnivariate, 'beta', ['a', 'b', 'loc', 'scale']),
    'Gamma: params = gamma.fit order (a,loc,scale)': lambda: mle_wiring(GammaUnivariate, 'gamma', ['a', 'loc', 'scale']),
    'StudentT: params = t.fit order (df,loc,scale)': lambda: mle_wiring(StudentTUnivariate, 't', ['df', 'loc', 'scale']),
    'LogLaplace: params = loglaplace.fit order (c,loc,scale)': lambda: mle_wiring(LogLaplace, 'loglaplace', ['c', 'loc', 'scale']),
    'GaussianKDE(): kernel estimate of exactly the training data': lambda: kde({}),
    "GaussianKDE(bw_method='silverman')": lambda: kde({'bw_method': 'silverman'}),
    'GaussianKDE(bw_method=0.5, weights)': lambda: kde({'bw_method': 0.5, 'weights': [0.2, 0.3, 0.5]}),
    'GaussianKDE(sample_size=2): resample of the kernel estimate': lambda: kde({'sample_size': 2}),
}


def task(name):
    t0 = time.time()
    try:
        bad, n, ex = CASES[name]()
        return {'name': name, 'bad': bad[:3], 'paths': n, 'exhaustive': ex, 'secs': time.time() - t0}
    except BaseException:
        import traceback
        return {'name': name, 'error': traceback.format_exc()[-1500:]}


def concrete_violation(extra_bounds=None):
    warnings.simplefilter('ignore')
    from scipy import stats
    rs = np.random.RandomState(0)
    x = rs.normal(3.0, 2.0, 500)
    g = GaussianUnivariate()
    g.fit(x)
    if not (np.isclose(g._params['loc'], x.mean()) and np.isclose(g._params['scale'], x.std())):
        return True, f'Gaussian: loc/scale {g._params} vs mean {x.mean()} / population std {x.std()}'
    u = UniformUnivariate()
    xu = rs.uniform(-2, 5, 400)
    u.fit(xu)
    if not (u._params['loc'] == xu.min() and np.isclose(u._params['scale'], xu.max() - xu.min())):
        return True, f'Uniform: {u._params} vs min {xu.min()} range {xu.max() - xu.min()}'
    for lo_, hi_ in ((-4.0, 11.0), (0, 12), (-6.0, 0), (0.0, 9.5)) + tuple(extra_bounds or ()):
        data = x if hi_ > 1 else -np.abs(x)
        data = data[(data > lo_) & (data < hi_)]
        t = TruncatedGaussian(minimum=lo_, maximum=hi_)
        t.fit(data)
        p = t._params
        if not (np.isclose(p['loc'] + p['a'] * p['scale'], lo_, atol=1e-9) and np.isclose(p['loc'] + p['b'] * p['scale'], hi_, atol=1e-9)):
            return True, f'TruncatedGaussian(minimum={lo_}, maximum={hi_}) ignores the user bounds: support [{p["loc"] + p["a"] * p["scale"]}, {p["loc"] + p["b"] * p["scale"]}]'
    t = TruncatedGaussian(minimum=-4.0, maximum=11.0)
    t.fit(x)
    p = t._params
    if not (np.isclose(p['loc'] + p['a'] * p['scale'], -4.0) and np.isclose(p['loc'] + p['b'] * p['scale'], 11.0)):
        return True, f'TruncatedGaussian ignores user bounds: support [{p["loc"] + p["a"] * p["scale"]}, {p["loc"] + p["b"] * p["scale"]}]'
    if t.cdf(np.array([-4.0 - 1e-9]))[0] != 0 or t.cdf(np.array([11.0 + 1e-9]))[0] != 1:
        return True, 'TruncatedGaussian places mass outside the user bounds'
    for cls, dist, order, data in ((BetaUnivariate, stats.beta, ('a', 'b', 'loc', 'scale'), rs.beta(2, 5, 400) * 3 + 1),
                                   (GammaUnivariate, stats.gamma, ('a', 'loc', 'scale'), rs.gamma(3.0, 2.0, 400)),
                                   (StudentTUnivariate, stats.t, ('df', 'loc', 'scale'), rs.standard_t(5, 400) * 2 + 1)):
        m = cls()
        m.fit(data)
        if cls is BetaUnivariate:
            ref = dist.fit(data, loc=data.min(), scale=data.max() - data.min())
        else:
            ref = dist.fit(data)
        if not np.allclose([m._params[k] for k in order], ref, rtol=1e-8, equal_nan=True):
            return True, f'{cls.__name__}: stored params {m._params} are not {dist.name}.fit() = {ref}'
        q = np.quantile(data, [0.2, 0.5, 0.8])
        if not np.allclose(m.cdf(q), dist.cdf(q, *ref), rtol=1e-9):
            return True, f'{cls.__name__}: cdf is not the cdf of the distribution fit() returned'
    # scaled / shifted members of the delegated families (fixed seed; the pinned code fits each within KS 0.06):
    # the fitted CDF must stay close to the empirical CDF of the sample
    from copulas.univariate import LogLaplace
    rs2 = np.random.RandomState(7)
    for nm_, cls_, data_ in (('gamma(2)*50+1000', GammaUnivariate, rs2.gamma(2.0, 1.0, 500) * 50 + 1000),
                             ('gamma(5)*0.01+10', GammaUnivariate, rs2.gamma(5.0, 1.0, 500) * 0.01 + 10),
                             ('gamma(3)*2', GammaUnivariate, rs2.gamma(3.0, 2.0, 500)),
                             ('t(5)*30-200', StudentTUnivariate, rs2.standard_t(5, 500) * 30 - 200),
                             ('t(8)*0.02+3', StudentTUnivariate, rs2.standard_t(8, 500) * 0.02 + 3),
                             ('beta(2,5)*400+50', BetaUnivariate, rs2.beta(2, 5, 500) * 400 + 50),
                             ('beta(3,2)*0.05-1', BetaUnivariate, rs2.beta(3, 2, 500) * 0.05 - 1),
                             ('loglaplace(3, loc=2, scale=4)', LogLaplace, stats.loglaplace(3.0, loc=2, scale=4).rvs(500, random_state=rs2))):
        m_ = cls_()
        m_.fit(data_)
        ks_ = float(stats.kstest(data_, m_.cdf)[0])
        if not ks_ <= 0.15:
            return True, f'{cls_.__name__} fitted on 500 draws of {nm_}: KS distance between the fitted CDF and the sample is {ks_:.3f} (parameters {m_._params})'
    for kw_, lo_w, hi_w in (({'minimum': -4.0}, -4.0, None), ({'maximum': 11.0}, None, 11.0)):
        t1 = TruncatedGaussian(**kw_)
        t1.fit(x)
        p1 = t1._params
        lo_s, hi_s = p1['loc'] + p1['a'] * p1['scale'], p1['loc'] + p1['b'] * p1['scale']
        if (lo_w is not None and not np.isclose(lo_s, lo_w)) or (hi_w is not None and not np.isclose(hi_s, hi_w)):
            return True, f'TruncatedGaussian({kw_}): support [{lo_s}, {hi_s}] does not honour the bound that was given'
    xw = rs.normal(size=40)
    ww = rs.uniform(0.2, 3.0, size=40)
    kw2 = GaussianKDE(weights=ww / ww.sum(), bw_method=0.5)
    kw2.fit(xw)
    refw = stats.gaussian_kde(xw, bw_method=0.5, weights=ww / ww.sum())
    ptsw = np.array([-1.0, 0.1, 0.9])
    if not np.allclose(kw2.pdf(ptsw), refw.evaluate(ptsw), rtol=1e-10):
        return True, 'weighted GaussianKDE density is not the weighted kernel estimate of the training data (weights misaligned?)'
    # sample_size: the density is the requested-rule kernel estimate of the stored resample
    for rule_, nn_, ss_ in (('scott', 400, 60), (None, 120, 500), ('silverman', 300, 40)):
        np.random.seed(3)
        ks_ = GaussianKDE(sample_size=ss_, bw_method=rule_)
        ks_.fit(x[:nn_])
        ds_ = np.asarray(ks_.to_dict()['dataset'], dtype=float).ravel()
        refs_ = stats.gaussian_kde(ds_, bw_method=rule_)
        ptss_ = np.array([0.5, 3.0, 5.5])
        if len(ds_) != ss_ or not np.allclose(ks_.pdf(ptss_), refs_.evaluate(ptss_), rtol=1e-9):
            return True, (f'GaussianKDE(sample_size={ss_}, bw_method={rule_!r}) fitted on {nn_} points: the density is not the {rule_ or "scott"} kernel estimate '
                          f'of the stored dataset of {len(ds_)} points ({np.asarray(ks_.pdf(ptss_)).tolist()} vs {refs_.evaluate(ptss_).tolist()})')
    k = GaussianKDE(bw_method='silverman')
    k.fit(x[:50])
    ref = stats.gaussian_kde(x[:50], bw_method='silverman')
    pts = np.array([0.0, 2.5, 6.0])
    if not np.allclose(k.pdf(pts), ref.evaluate(pts), rtol=1e-12):
        return True, 'GaussianKDE density is not the silverman kernel estimate of the training data'
    return False, ''


def replay(d):
    bad, detail = concrete_violation()
    print(detail)
    return bad


def run(tier, seed):
    ck = Check('C04', tier, seed, 'proof',
               'symbolic execution of every family\'s real _fit on symbolic data (scipy estimators/optimisers as uninterpreted functions); '
               'z3 decides the estimator identities and the parameter wiring')
    ck.encode(GaussianUnivariate._fit, UniformUnivariate._fit, TruncatedGaussian._fit, BetaUnivariate._fit, GammaUnivariate._fit,
              StudentTUnivariate._fit, LogLaplace._fit, GaussianKDE._fit, GaussianKDE._get_model)
    ck.stubs = ['scipy.stats.<dist>.fit: uninterpreted functions of the data, scipy\'s documented order', 'fmin_slsqp: any point inside the bounds it is given',
                'truncnorm.nnlf: uninterpreted', 'gaussian_kde: record of (dataset, bw_method, weights); resample draws from the RNG model', 'np.std: s >= 0 with s^2 = variance(ddof)']
    ck.bounds = {'data points n': '2..4 (closed forms), 3 (others)', 'values': 'unconstrained reals, not all equal'}
    ck.outside = ['"the fitted CDF is uniformly close to the generating and the empirical CDF (DKW band)": statistical, also depends on scipy\'s MLE optimiser - not decided',
                  'that scipy.stats.<dist>.fit maximises the likelihood']
    ck.assumptions = ['stub contracts above; exact real arithmetic']
    viol = False
    for r in pool_map(task, list(CASES)):
        if r.get('error'):
            ck.inconcl(f"{r['name']}: harness error {r['error']}")
            continue
        if not r['exhaustive']:
            ck.inconcl(f"{r['name']}: not exhaustive")
        ck.paths += r['paths']
        ck.ob(r['name'], 'unsat' if not r['bad'] else 'sat', r['secs'], queries=r['paths'])
        if r['bad'] and not viol:
            b, detail = concrete_violation()
            if b:
                ck.violation(r['name'].split(':')[0].split(' n=')[0], f"{r['name']}: {r['bad'][0][0]} -- {detail}", {})
                viol = True
            else:
                ck.inconcl(f"{r['name']}: {r['bad'][0][0]}; not reproduced on the real code")
    b, detail = concrete_violation()
    ck.traces_validated = 8
    if b:
        ck.violation('conformance', detail, {})
    return ck.finish()
