"""C10 - bivariate fit calibrates theta to the data's Kendall tau or refuses."""
import time
import warnings

import numpy as np
import z3

import copulas.bivariate.base as B
import copulas.bivariate.clayton as MC
import copulas.bivariate.frank as MF
import copulas.bivariate.gumbel as MG
from copulas.bivariate import Clayton, Frank, Gumbel

from symx.core import EXP, Ctx, SymReal, explore, model_value, sym, symarr, tz
from symx.report import Check
from symx.shim import NPShim, ns, patched, patched_many
from symx.trans import prove, prove_identity
from . import stubs
from .copsuite import pool_map

FAMS = {'clayton': (Clayton, MC), 'gumbel': (Gumbel, MG), 'frank': (Frank, MF)}


def patches(kt, quad=None, lsq=None):
    sh = NPShim(havoc_empty=False, force_obj=True)
    sh.sort = stubs.merged_sort
    specs = [(B, dict(np=sh, stats=ns(kendalltau=kt), min=stubs.merged_min, max=stubs.merged_max,
                      warnings=stubs.WarnRecorder(warnings))),
             (MC, dict(np=sh)), (MG, dict(np=sh)),
             (MF, dict(np=sh, integrate=ns(quad=quad or stubs.QuadStub()), least_squares=lsq or stubs.LeastSquaresStub()))]
    return patched_many(*specs)


def fit_paths(fam, n, tlimit=300):
    cls, _ = FAMS[fam]

    def fn(ctx):
        X = symarr('x', n, 2)
        c = cls()
        c.fit(X)
        return {'tau': c.tau, 'theta': c.theta, 'X': X}
    kt = stubs.KendallStub()
    with patches(kt):
        paths, ex, dt = explore(fn, tlimit=tlimit, max_paths=50000)
    return paths, ex


def in_unit(X):
    return z3.And(*[z3.And(tz(x) >= 0, tz(x) <= 1) for x in X.flat])


def constant_col(X):
    n = X.shape[0]
    return z3.Or(*[z3.And(*[tz(X[i, j]) == tz(X[0, j]) for i in range(1, n)]) for j in (0, 1)])


def analyse(fam, n):
    """every feasible path of the real fit(): returns plain-data verdicts"""
    t0 = time.time()
    paths, ex = fit_paths(fam, n)
    out = {'fam': fam, 'n': n, 'paths': len(paths), 'exhaustive': ex, 'fails': [], 'nq': 0, 'stat': {}, 'samples': []}
    X = symarr('x', n, 2)

    def fail(p, what, goal=None, s=None):
        m = None
        if s is not None:
            try:
                m = s.model()
            except Exception:
                m = None
        if m is None:
            s2 = z3.Solver()
            s2.add(*p.ctx.pc)
            if s2.check() == z3.sat:
                m = s2.model()
        data = [[model_value(m, tz(X[i, j])) for j in (0, 1)] for i in range(n)] if m is not None else None
        tau = None
        if m is not None and p.ctx.notes.get('taus'):
            tau = model_value(m, p.ctx.notes['taus'][0].t)
        out['fails'].append({'what': what, 'data': data, 'tau': tau, 'fam': fam})

    for p in paths:
        out['nq'] += p.ctx.queries
        s = z3.Solver()
        s.set('timeout', 30000)
        s.add(*p.ctx.pc)

        def valid(goal):
            s.push()
            s.add(z3.Not(goal))
            r = s.check()
            out['nq'] += 1
            ok = r == z3.unsat
            if not ok:
                valid.last = s.model() if r == z3.sat else None
            s.pop()
            return ok
        key = p.status if p.status != 'exc' else type(p.exc).__name__
        out['stat'][key] = out['stat'].get(key, 0) + 1
        if p.status == 'unsupported':
            fail(p, f'unsupported: {p.exc}')
            continue
        kts = [e for e in p.ctx.log if e[0] == 'kendalltau']
        if any(e[0] == 'kendalltau-nondefault' for e in p.ctx.log):
            fail(p, 'kendalltau called with a non-default variant/arguments')
        if p.status == 'exc':
            if not isinstance(p.exc, ValueError):
                fail(p, f'fit raises {type(p.exc).__name__}: {p.exc} (neither a calibrated model nor ValueError)')
                continue
            # ValueError is the documented refusal; it must have a documented reason
            taus = p.ctx.notes.get('taus', [])
            reasons = [z3.Not(in_unit(X)), constant_col(X)]
            if taus:
                t = taus[0].t
                if fam == 'clayton':
                    reasons.append(t <= 0)
                if fam == 'gumbel':
                    reasons += [t < 0, t == 1]
                if fam == 'frank':
                    # theta = 0 (the independence limit, reached only for tau = 0) is not admissible
                    reasons.append(z3.Real('theta_ls') == 0)
            if not valid(z3.Or(*reasons)):
                fail(p, f'ValueError ({p.exc}) although the data are valid pseudo-observations with an admissible tau')
            continue
        v = p.value
        # returned normally
        if not valid(in_unit(X)):
            fail(p, 'fit accepted a value outside [0,1]')
        if not valid(z3.Not(constant_col(X))):
            fail(p, 'fit accepted a constant column')
        if len(kts) != 1:
            fail(p, f'kendalltau called {len(kts)} times')
            continue
        _, a, b = kts[0]
        same = len(a) == n and len(b) == n and all(tz(a[i]).eq(tz(X[i, 0])) and tz(b[i]).eq(tz(X[i, 1])) for i in range(n))
        if not same:
            fail(p, 'kendalltau was not applied to (column 0, column 1) of the data')
        taus = p.ctx.notes.get('taus', [])
        if not taus or not isinstance(v['tau'], SymReal) or not tz(v['tau']).eq(taus[0].t):
            fail(p, f'stored tau {v["tau"]!r} is not the first component of kendalltau')
            continue
        t = taus[0].t
        th = v['theta']
        if not isinstance(th, SymReal):
            # concrete theta (e.g. inf for tau == 1)
            if fam == 'clayton' and th == float('inf'):
                if not valid(t == 1):
                    fail(p, 'theta=inf without tau==1')
                continue
            fail(p, f'non-symbolic theta {th!r}')
            continue
        th = th.t
        if fam == 'clayton':
            rel = th == 2 * t / (1 - t)
            adm = th > 0
        elif fam == 'gumbel':
            rel = z3.And(th >= 1, (1 - 1 / th) == t)
            adm = th >= 1
        else:
            rel = z3.BoolVal(True)
            adm = th != 0
            ls = [e for e in p.ctx.log if e[0] == 'least_squares']
            if len(ls) != 1:
                fail(p, 'least_squares not called exactly once')
                continue
            if not tz(p.value['theta']).eq(z3.Real('theta_ls')):
                fail(p, 'stored theta is not the root returned by least_squares')
        if not valid(rel):
            fail(p, 'theta does not satisfy the family tau-theta relation', s=None)
        if not valid(adm):
            fail(p, 'fit returned normally with a theta outside the admissible set')
        if len(out['samples']) < 2:
            out['samples'].append({'fam': fam, 'rows': n, 'tau': str(v['tau']), 'theta': str(v['theta'])[:80],
                                   'decisions': len(p.ctx.decisions)})
    out['fails'] = out['fails'][:12]
    out['secs'] = time.time() - t0
    return out


def frank_residual():
    """the function handed to least_squares is the Debye relation  1 + 4/a (D1(a) - 1) - tau,
    D1(a) = I(a)/a, with I = integral of t/(e^t - 1) (same UF for the integral)."""
    res = {'ok': True, 'notes': [], 'nq': 0}

    def fn(ctx):
        c = Frank()
        c.tau = sym('tau')
        a = sym('alpha')
        ctx.assume(a.t != 0)
        r = c._tau_to_theta(a)
        return r, list(ctx.log)
    kt = stubs.KendallStub()
    with patches(kt):
        paths, ex, _ = explore(fn)
    if not paths or any(p.status != 'ok' for p in paths):
        res['ok'] = False
        res['notes'].append('residual trace: ' + str([(p.status, repr(p.exc)) for p in paths]))
        return res
    a = z3.Real('alpha')
    tau = z3.Real('tau')
    g = None
    for p in paths:
        r, log = p.value
        q = [e for e in log if e[0] == 'quad']
        if len(q) != 1:
            res['ok'] = False
            res['notes'].append(f'a path of the residual does not integrate (quad called {len(q)} times) under {p.ctx.pc[1:]}')
            continue
        _, g, lo, hi = q[0]
        spec = 1 + 4 / a * (stubs.Q(tz(lo), a) / a - 1) - tau
        s = z3.Solver()
        s.add(*p.ctx.pc)
        s.add(a != 0, tz(r) != spec)
        res['nq'] += 1
        if s.check() != z3.unsat or not tz(hi).eq(a):
            res['ok'] = False
            res['notes'].append(f'residual {tz(r)} is not the Debye relation {spec}')
        if not (isinstance(lo, (float, np.floating)) and 0 <= float(lo) <= 1e-6):
            res['ok'] = False
            res['notes'].append(f'lower integration limit {lo}')
    if g is None:
        return res
    # integrand: t / (e^t - 1)
    with patches(kt):
        def fg(ctx):
            t_ = sym('t')
            ctx.assume(t_.t > 0)
            return g(t_)
        gp, _, _ = explore(fg)
    if len(gp) != 1 or gp[0].status != 'ok':
        res['ok'] = False
        res['notes'].append('integrand trace failed')
        return res
    t_ = z3.Real('t')
    pr = prove_identity([t_ > 0], tz(gp[0].value), t_ / (EXP(t_) - 1))
    res['nq'] += 1
    if pr['status'] != 'unsat':
        res['ok'] = False
        res['notes'].append(f'integrand {tz(gp[0].value)} is not t/(e^t-1)')
    return res


def task(a):
    try:
        if a[0] == 'fit':
            return ('fit', analyse(a[1], a[2]))
        return ('frank_residual', frank_residual())
    except BaseException:
        import traceback
        return ('error', {'what': str(a), 'tb': traceback.format_exc()[-1500:]})


def real_fit(fam, data):
    cls = FAMS[fam][0]
    c = cls()
    with warnings.catch_warnings():
        warnings.simplefilter('ignore')
        c.fit(np.array(data, dtype=float))
    return c


def replay(d):
    """replay on the real, unstubbed code: does fit(data) neither calibrate correctly nor raise ValueError?"""
    from scipy import stats
    fam, data = d['fam'], d['data']
    X = np.array(data, dtype=float)
    valid = bool(((X >= 0) & (X <= 1)).all()) and len(np.unique(X[:, 0])) > 1 and len(np.unique(X[:, 1])) > 1
    try:
        c = real_fit(fam, data)
    except ValueError as e:
        tau = stats.kendalltau(X[:, 0], X[:, 1])[0] if valid else None
        print('ValueError', e, 'valid', valid, 'tau', tau)
        if not valid:
            return False
        if fam in ('clayton', 'gumbel') and (tau <= 0 or tau == 1):
            return False
        if fam == 'frank' and abs(tau) < 1e-12:
            return False
        return True
    except Exception as e:
        print('raises', type(e).__name__, e)
        return True
    print('theta', c.theta, 'tau', c.tau)
    if not valid:
        return True
    tau = stats.kendalltau(X[:, 0], X[:, 1])[0]
    if abs(tau) >= 1 - 1e-12:
        return False        # |tau| = 1 is outside the property's quantifier
    if not np.isclose(c.tau, tau):
        return True
    if fam == 'clayton':
        return not (c.theta > 0 and np.isclose(c.theta / (c.theta + 2), tau))
    if fam == 'gumbel':
        return not (c.theta >= 1 and np.isclose(1 - 1 / c.theta, tau))
    from scipy import integrate
    if c.theta == 0:
        return True
    d1 = integrate.quad(lambda t: t / np.expm1(t), 0, c.theta)[0] / c.theta
    return not np.isclose(1 - 4 / c.theta * (1 - d1), tau, atol=(5e-3 if abs(tau) < 0.05 else 2e-5), rtol=0)


def concretise(fam, n, fl):
    """turn a failing path's model into datasets to replay: the model's data (tau is then
    whatever the real kendalltau gives), plus small datasets realising the model's tau sign"""
    cands = []
    if fl.get('data'):
        cands.append(fl['data'])
    hi = [[(i + 1) / 42.0, (i + 1) / 42.0] for i in range(40)]
    hi[10][1], hi[11][1] = hi[11][1], hi[10][1]
    hi2 = [[r[0], 1 - r[1]] for r in hi]
    cands += [hi, hi2, [[.1, .1], [.2, .4], [.3, .3], [.4, .2]], [[.1, .2], [.5, .6], [.9, .95]], [[.1, .9], [.5, .5], [.9, .1]],
              [[.2, .3], [.4, .1], [.6, .8], [.8, .6]], [[.1, .5], [.3, .2], [.6, .9]]]
    return cands


def run(tier, seed):
    ck = Check('C10', tier, seed, 'model_checking',
               'exhaustive path enumeration of the real Bivariate.fit on symbolic (n,2) data with kendalltau / '
               'least_squares / quad as contract stubs; z3 decides every clause on every path')
    ck.encode(B.Bivariate.fit, B.Bivariate.check_marginal, B.Bivariate._compute_theta, B.Bivariate.check_theta,
              Clayton.compute_theta, Gumbel.compute_theta, Frank.compute_theta, Frank._tau_to_theta)
    ck.stubs = ['scipy.stats.kendalltau: fresh tau in [-1,1], NaN iff a column is constant',
                'scipy.optimize.least_squares: calls fun on a 1-d array, returns a root inside the bounds',
                'scipy.integrate.quad: uninterpreted integral, scalar limits required',
                'np.sort / min / max: merged (no forks)']
    rows = (2, 3) if tier == 'quick' else (2, 3, 4)
    ck.bounds = {'rows': list(rows), 'values': 'unconstrained reals (in and out of [0,1], ties allowed)', 'tau': 'any real in [-1,1]'}
    ck.outside = ['numerics of least_squares/quad (Frank root finding accuracy)', 'that scipy computes tau-b',
                  'tau = +-1 (outside the quantifier)']
    ck.assumptions = ['stub contracts above', 'exact real arithmetic']
    jobs = [('fit', f, n) for f in FAMS for n in rows] + [('frank_residual',)]
    for kind, r in pool_map(task, jobs):
        if kind == 'error':
            ck.inconcl(f"harness error {r['what']}: {r['tb']}")
            continue
        if kind == 'frank_residual':
            ck.ob('frank: residual handed to least_squares is the Debye relation; integrand t/(e^t-1)',
                  'unsat' if r['ok'] else 'sat', 0.0, queries=r['nq'])
            if not r['ok']:
                done = False
                for data in concretise('frank', 4, {}):
                    rep = {'fam': 'frank', 'data': data}
                    if replay(rep):
                        ck.violation('frank:residual', 'Frank tau-theta residual is not the Debye relation: ' + '; '.join(r['notes'])[:300], rep)
                        done = True
                        break
                if not done:
                    ck.inconcl('frank residual: ' + '; '.join(r['notes'])[:300])
            continue
        ck.paths += r['paths']
        ck.states += r['paths']
        ck.transitions += r['nq']
        ck.queries += r['nq']
        ck.solver_s += r['secs']
        for s_ in r['samples']:
            ck.sample(s_)
        name = f"{r['fam']} fit, {r['n']} rows: {r['paths']} paths {r['stat']}"
        if not r['exhaustive']:
            ck.inconcl(name + ': exploration not exhaustive')
        ck.ob(name, 'unsat' if not r['fails'] else 'sat', r['secs'], queries=0, paths=r['paths'])
        seen = set()
        for fl in r['fails']:
            k = fl['what'].split(':')[0][:60]
            if k in seen:
                continue
            seen.add(k)
            done = False
            for data in concretise(r['fam'], r['n'], fl):
                rep = {'fam': r['fam'], 'data': data, 'what': fl['what']}
                try:
                    bad = replay(rep)
                except Exception:
                    bad = False
                if bad:
                    ck.violation(f"{r['fam']}:{k}", f"{r['fam']}.fit({data}): {fl['what']}", rep)
                    done = True
                    break
            if not done:
                ck.inconcl(f"{name}: {fl['what']} not reproduced on the real code")
    return ck.finish()
