"""Shared harness for the Gaussian-multivariate checks (C01, C02, C12, C13, C15...)."""
import contextlib

import numpy as np
import pandas as pd
import z3

import copulas.multivariate.gaussian as G
import copulas.utils as UT
from copulas.multivariate.gaussian import GaussianMultivariate

from symx.core import Ctx, SymBool, SymReal, objarr, tz
from symx.rng import RNGModel
from symx.shim import NPShim, ite, ns, patched, s_max, s_min

from symx.core import LOG as _LOG
R = z3.RealSort()
PHI = z3.Function('Phi', R, R)
PHIINV = z3.Function('PhiInv', R, R)
FJ = z3.Function('F', z3.IntSort(), R, R)       # marginal cdf of column j
QJ = z3.Function('Q', z3.IntSort(), R, R)       # marginal quantile of column j
PJ = z3.Function('f', z3.IntSort(), R, R)       # marginal density


class ClipArray(np.ndarray):
    """object ndarray whose .clip merges (if-then-else terms) instead of forking"""

    def clip(self, lo=None, hi=None, **kw):
        out = np.empty(self.shape, dtype=object)
        for idx in np.ndindex(*self.shape):
            x = self[idx]
            if lo is not None:
                x = s_max(x, lo)
            if hi is not None:
                x = s_min(x, hi)
            out[idx] = x
        return out


def cliparr(vals):
    a = objarr(vals).view(ClipArray)
    return a


def _elem(f, X):
    X = np.asarray(X, dtype=object)
    out = np.empty(X.shape, dtype=object)
    for idx in np.ndindex(*X.shape):
        out[idx] = f(X[idx])
    return out


def phi(x):
    def one(v):
        t = tz(v)
        if z3.is_app(t) and t.decl().eq(PHIINV):
            return SymReal(t.arg(0))
        p = PHI(t)
        if Ctx.cur is not None:
            Ctx.cur.assume(p > 0, p < 1)
        return SymReal(p)
    if isinstance(x, (pd.Series,)):
        x = x.to_numpy()
    return _elem(one, x)


def phiinv(x):
    def one(v):
        t = tz(v)
        if z3.is_app(t) and t.decl().eq(PHI):
            return SymReal(t.arg(0))
        return SymReal(PHIINV(t))
    return _elem(one, x)


class StubUni:
    """a fitted marginal: cdf F_j, quantile Q_j, density f_j as uninterpreted functions"""
    fitted = True

    def __init__(self, j, log=None):
        self.j = j
        self.log = log if log is not None else []

    def _app(self, fn, X, clipok=False):
        X = np.asarray(X, dtype=object)
        vals = []
        for x in X.flat:
            v = fn(z3.IntVal(self.j), tz(x))
            vals.append(SymReal(v))
        a = objarr(vals).reshape(X.shape) if vals else np.empty(X.shape, dtype=object)
        return a

    def cumulative_distribution(self, X):
        self.log.append(('cdf', self.j, np.asarray(X, dtype=object).copy()))
        a = self._app(FJ, X)
        if Ctx.cur is not None:
            for v in a.flat:
                Ctx.cur.assume(v.t >= 0, v.t <= 1)
        return a.view(ClipArray)

    cdf = cumulative_distribution

    def percent_point(self, U):
        self.log.append(('ppf', self.j, np.asarray(U, dtype=object).copy()))
        return self._app(QJ, U)

    ppf = percent_point

    def probability_density(self, X):
        return self._app(PJ, X)

    pdf = probability_density

    def to_dict(self):
        return {'type': 'stub', 'j': self.j}


def sym_corr(cols, prefix='s', unit_diag=True):
    """symbolic symmetric matrix as an object DataFrame labelled by cols"""
    d = len(cols)
    M = np.empty((d, d), dtype=object)
    for i in range(d):
        for j in range(i, d):
            if i == j:
                M[i, j] = SymReal(z3.RealVal(1)) if unit_diag else SymReal(z3.Real(f'{prefix}_{i}_{i}'))
            else:
                M[i, j] = M[j, i] = SymReal(z3.Real(f'{prefix}_{i}_{j}'))
    return pd.DataFrame(M, index=list(cols), columns=list(cols)), M


def minors_pd(M):
    """leading principal minors > 0 (Sylvester): positive definiteness of a symbolic matrix"""
    from symx.shim import det
    out = []
    for k in range(1, M.shape[0] + 1):
        out.append(tz(det(M[:k, :k])) > 0)
    return out


class MVNRecorder:
    def __init__(self):
        self.calls = []

    def __call__(self, mean=None, cov=1, allow_singular=False, **k):
        """frozen distribution: stats.multivariate_normal(mean, cov, ...)"""
        rec = self

        class Frozen:
            def pdf(self, x):
                return rec.pdf(x, cov=cov, allow_singular=allow_singular)

            def cdf(self, x):
                return rec.cdf(x, cov=cov)

            def logpdf(self, x):
                r = rec.pdf(x, cov=cov, allow_singular=allow_singular)
                return _elem(lambda v: SymReal(_LOG(tz(v))), np.asarray(r, dtype=object))
        return Frozen()

    def pdf(self, x, *a, **k):
        self.calls.append(('pdf', np.asarray(x, dtype=object).copy(), a, k))
        x = np.asarray(x, dtype=object)
        n = 1 if x.ndim == 1 else x.shape[0]
        return objarr([Ctx.cur.fresh('mvnpdf') for _ in range(n)]) if x.ndim > 1 else Ctx.cur.fresh('mvnpdf')

    def cdf(self, x, *a, **k):
        self.calls.append(('cdf', np.asarray(x, dtype=object).copy(), a, k))
        x = np.asarray(x, dtype=object)
        n = 1 if x.ndim == 1 else x.shape[0]
        return objarr([Ctx.cur.fresh('mvncdf') for _ in range(n)]) if x.ndim > 1 else Ctx.cur.fresh('mvncdf')


def fitted_model(cols, corr_df, log=None):
    m = GaussianMultivariate()
    m.columns = list(cols)
    m.univariates = [StubUni(j, log) for j in range(len(cols))]
    m.correlation = corr_df
    m.fitted = True
    m.random_state = None
    return m


@contextlib.contextmanager
def gm_patches(rng=None, mvn=None, extra_np=None):
    sh = NPShim(havoc_empty=False, force_obj=True, random=rng)
    st = ns(norm=ns(ppf=phiinv, cdf=phi), multivariate_normal=mvn or MVNRecorder())
    ush = NPShim(havoc_empty=False, random=rng)
    with patched(G, np=sh, stats=st), patched(UT, np=ush):
        yield sh


# ---------------------------------------------------------------- fit-level stubs
# The stubs are real subclasses of Univariate (so that isinstance checks in the code under analysis
# see them as marginals); listing ABC among their bases keeps them out of Univariate's own
# candidate selection.
from abc import ABC as _ABC                                  # noqa: E402
from copulas.univariate.base import Univariate as _Univariate  # noqa: E402

class StubDist(_Univariate, _ABC):
    """configurable marginal for GaussianMultivariate(distribution=...): fit() records the training
    column and identifies it by name; cdf/ppf are the uninterpreted F_j / Q_j of that column"""
    COLIDX = {}
    FITS = []
    RAISE_ON = set()
    RAISE_KIND = 'RuntimeError'
    fitted = False

    def __init__(self, *a, **k):
        self._stub = None

    def fit(self, X):
        name = getattr(X, 'name', None)
        type(self).FITS.append((type(self).__name__, name, np.asarray(X, dtype=object).copy()))
        if name in StubDist.RAISE_ON:
            raise {'RuntimeError': RuntimeError, 'ValueError': ValueError, 'Exception': Exception}.get(StubDist.RAISE_KIND, RuntimeError)(f'cannot fit {name}')
        self._stub = StubUni(StubDist.COLIDX[name])
        self.fitted = True

    def cdf(self, X):
        return self._stub.cdf(X)

    cumulative_distribution = cdf

    def percent_point(self, U):
        return self._stub.percent_point(U)

    def to_dict(self):
        return {'type': 'checks.gm.' + type(self).__name__, 'j': self._stub.j}


class StubDistB(StubDist, _ABC):
    pass


class StubDefault(StubDist, _ABC):
    pass


def all_equal_terms(xs):
    xs = list(xs)
    for x in xs[1:]:
        if not (x == xs[0]):
            return False
    return True


class CorrStub:
    """pandas DataFrame.corr() for symbolic frames, under Pearson's contract: symmetric, entries in
    [-1,1], unit diagonal; a constant column gives a NaN row and column; the matrix restricted to the
    non-constant columns is positive semi-definite (all principal minors >= 0, d <= 3)."""

    def __init__(self):
        self.real = pd.DataFrame.corr
        self.calls = []

    def __call__(stub, self, *a, **k):
        if not any(dt == object for dt in self.dtypes):
            return stub.real(self, *a, **k)
        ctx = Ctx.cur
        A = self.to_numpy()
        stub.calls.append((A.copy(), list(self.columns), a, k))
        d = A.shape[1]
        const = [all_equal_terms(A[:, j]) for j in range(d)]
        M = np.empty((d, d), dtype=object)
        for i in range(d):
            for j in range(i, d):
                if const[i] or const[j]:
                    M[i, j] = M[j, i] = float('nan')
                elif i == j:
                    M[i, j] = SymReal(z3.RealVal(1))
                else:
                    # a deterministic function of the two columns (so that equal data give equal correlations)
                    args = [tz(x) for x in A[:, i]] + [tz(x) for x in A[:, j]]
                    f = z3.Function(f'rho_{len(args)}', *([R] * (len(args) + 1)))
                    r = SymReal(f(*args))
                    ctx.assume(r.t >= -1, r.t <= 1)
                    M[i, j] = M[j, i] = r
        live = [i for i in range(d) if not const[i]]
        from symx.shim import det
        import itertools
        for k_ in range(2, len(live) + 1):
            for sub in itertools.combinations(live, k_):
                ctx.assume(tz(det(M[np.ix_(sub, sub)])) >= 0)
        ctx.notes['corr_const'] = const
        ctx.notes['corr_M'] = M
        return pd.DataFrame(M)


class ModelClassStub:
    """stands for a scipy.stats distribution object (MODEL_CLASS): uninterpreted functions of
    (x, params); rvs draws from the RNG model's global generator"""

    def __init__(self, name, rng=None):
        self.name = name
        self.rng = rng
        self.calls = []

    def _uf(self, kind, X, params):
        keys = sorted(params)
        f = z3.Function(f'{self.name}_{kind}_' + '_'.join(keys), *([R] * (len(keys) + 2)))
        X = np.asarray(X, dtype=object)
        out = np.empty(X.shape, dtype=object)
        for idx in np.ndindex(*X.shape):
            out[idx] = SymReal(f(tz(X[idx]), *[tz(params[k]) for k in keys]))
        return out

    def cdf(self, X, **p):
        self.calls.append(('cdf', X, p))
        a = self._uf('cdf', X, p)
        for v in a.flat:
            Ctx.cur.assume(v.t >= 0, v.t <= 1)
        return a.view(ClipArray)

    def pdf(self, X, **p):
        self.calls.append(('pdf', X, p))
        return self._uf('pdf', X, p)

    def ppf(self, U, **p):
        self.calls.append(('ppf', U, p))
        return self._uf('ppf', U, p)

    def logpdf(self, X, **p):
        self.calls.append(('logpdf', X, p))
        return self._uf('logpdf', X, p)

    def rvs(self, size=1, **p):
        self.calls.append(('rvs', size, p))
        vals = self.rng.glob._draw('rvs:' + self.name, int(size), p)
        return objarr(vals)
