"""C07 - copula density and conditional CDF are the derivatives of the CDF."""
from . import copsuite as S

OUTSIDE = ['"integrates over any rectangle to the C-volume" follows from pdf = d2C/dudv by the FTC (not decided)',
           'h(0,v)=0 is a limit for Clayton/Gumbel; only 0<=h<=1 and dh/du = pdf >= 0 are shown there',
           'float64 rounding']


def run(tier, seed):
    return S.drive('C07', tier, seed, dict(S.C07_OBS), ['partial_derivative', 'probability_density'], OUTSIDE)


replay = S.replay
