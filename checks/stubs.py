"""Contract stubs for the library boundary (scipy / pandas / plotly), shared by the checks.
Every stub returns an arbitrary value of its type constrained only by the documented contract
and logs the call in Ctx.cur.log."""
import functools

import numpy as np
import z3

from symx.core import Ctx, NeedsConcrete, SymBool, SymReal, objarr, tz
from symx.shim import NPShim, has_sym, ite, s_max, s_min


def merged_min(*a):
    xs = list(a[0]) if len(a) == 1 else list(a)
    r = xs[0]
    for x in xs[1:]:
        r = s_min(r, x)
    return r


def merged_max(*a):
    xs = list(a[0]) if len(a) == 1 else list(a)
    r = xs[0]
    for x in xs[1:]:
        r = s_max(r, x)
    return r


def merged_sort(a, *args, **kw):
    """sorting network with min/max terms (no forks)"""
    xs = list(np.asarray(a, dtype=object))
    n = len(xs)
    for i in range(n):
        for j in range(n - 1 - i):
            lo, hi = s_min(xs[j], xs[j + 1]), s_max(xs[j], xs[j + 1])
            xs[j], xs[j + 1] = lo, hi
    return objarr(xs)


def all_equal(xs):
    """forks: are all entries equal?"""
    xs = list(xs)
    for x in xs[1:]:
        if not (x == xs[0]):
            return False
    return True


class KendallStub:
    """scipy.stats.kendalltau(x, y): fresh tau in [-1, 1]; NaN iff a column is constant.
    Only the default variant ('b') is accepted."""

    def __init__(self, name='tau', check_const=True):
        self.name = name
        self.n = 0
        self.check_const = check_const

    def __call__(self, x, y, *args, **kw):
        ctx = Ctx.cur
        if args or any(k not in ('variant',) for k in kw) or kw.get('variant', 'b') != 'b':
            ctx.log.append(('kendalltau-nondefault', args, kw))
        x = np.asarray(x, dtype=object)
        y = np.asarray(y, dtype=object)
        ctx.log.append(('kendalltau', x.copy(), y.copy()))
        if len(x) != len(y):
            raise ValueError('kendalltau: lengths differ')
        if len(x) < 2 or (self.check_const and (all_equal(x) or all_equal(y))):
            return (float('nan'), float('nan'))
        self.n += 1
        t = SymReal(z3.Real(f'{self.name}{self.n}'))
        ctx.assume(t.t >= -1, t.t <= 1)
        ctx.notes.setdefault('taus', []).append(t)
        return (t, SymReal(z3.Real(f'pvalue{self.n}')))


Q = z3.Function('quad', z3.RealSort(), z3.RealSort(), z3.RealSort())   # integral of the Frank integrand over [a, b]


class QuadStub:
    """scipy.integrate.quad(g, a, b) -> (I_g(a, b), err).  Contract: a and b are floats (a
    1-element array is rejected the way scipy + numpy >= 2 reject it)."""

    def __call__(self, g, a, b, *args, **kw):
        for lim in (a, b):
            if isinstance(lim, np.ndarray) and lim.ndim >= 1:
                raise TypeError('only 0-dimensional arrays can be converted to Python scalars')
        Ctx.cur.log.append(('quad', g, a, b))
        return (SymReal(Q(tz(a), tz(b))), 0.0)


class LSQResult:
    def __init__(self, x):
        self.x = x


class LeastSquaresStub:
    """scipy.optimize.least_squares(fun, x0, bounds): calls fun on a 1-d array (as scipy does) and
    returns x with fun(x) == 0, inside the bounds."""

    def __call__(self, fun, x0, *args, **kw):
        ctx = Ctx.cur
        th = SymReal(z3.Real('theta_ls'))
        bounds = kw.get('bounds', (-np.inf, np.inf))
        ctx.log.append(('least_squares', fun, x0, bounds, kw))
        r = fun(objarr([th]))
        r0 = r
        if isinstance(r, np.ndarray):
            r0 = r.ravel()[0]
        ctx.assume(tz(r0) == 0, th.t >= float(bounds[0]), th.t <= float(bounds[1]))
        ctx.notes['lsq_residual_at_root'] = r0
        return LSQResult(objarr([th]))


class BrentqStub:
    """scipy.optimize.brentq(f, a, b, args=(), xtol=2e-12, rtol=8.9e-16, maxiter=100, full_output=False, disp=True):
    requires a sign change, returns x in [a,b] with f(x) = 0.  f must return a scalar (a 1-element
    array is what breaks under numpy >= 2).  The root guarantee is scipy's contract for the default
    tolerances and iteration budget with disp=True; a call that loosens any of them (smaller maxiter,
    larger xtol/rtol, disp=False, which returns the last iterate silently) only gets `x in [a,b]`
    and is recorded as ('brentq-weakened', what)."""
    DEFAULTS = {'xtol': 2e-12, 'rtol': 8.881784197001252e-16, 'maxiter': 100, 'full_output': False, 'disp': True}

    def __init__(self):
        self.n = 0

    def __call__(self, f, a, b, args=(), xtol=2e-12, rtol=8.881784197001252e-16, maxiter=100, full_output=False, disp=True):
        ctx = Ctx.cur
        if args:
            g = f
            f = lambda x: g(x, *args)  # noqa
        weak = []
        try:
            if float(xtol) > 2e-12:
                weak.append(f'xtol={xtol}')
            if float(rtol) > 8.881784197001252e-16:
                weak.append(f'rtol={rtol}')
            if int(maxiter) < 100:
                weak.append(f'maxiter={maxiter}')
        except BaseException:
            weak.append('non-constant tolerance arguments')
        if not disp:
            weak.append('disp=False')
        fa, fb = f(a), f(b)
        for v in (fa, fb):
            if isinstance(v, np.ndarray) and v.ndim >= 1:
                raise TypeError('brentq: f must return a scalar (got an array)')
        self.n = ctx.notes['brentq_n'] = ctx.notes.get('brentq_n', 0) + 1
        # evaluate the function at a fresh probe point *now* (closures over loop variables are
        # only meaningful while the caller's loop iteration is live)
        probe = SymReal(z3.Real(f'probe{self.n}'))
        ctx.assume(probe.t > 0, probe.t <= 1)
        fp = f(probe)
        if isinstance(fp, np.ndarray):
            fp = fp.ravel()[0]
        ctx.log.append(('brentq', f, a, b, fa, fb, probe, fp))
        if weak:
            ctx.log.append(('brentq-weakened', ', '.join(weak)))
        if not bool(_prod_nonpos(fa, fb)):
            raise ValueError('f(a) and f(b) must have different signs')
        x = SymReal(z3.Real(f'root{self.n}'))
        if weak:
            ctx.assume(x.t >= tz(a), x.t <= tz(b))
        else:
            fx = f(x)
            if isinstance(fx, np.ndarray):
                fx = fx.ravel()[0]
            ctx.assume(x.t >= tz(a), x.t <= tz(b), tz(fx) == 0)
        if full_output:
            class _R:
                converged = True
                root = x
            return x, _R()
        return x


def _prod_nonpos(fa, fb):
    fa, fb = SymReal(tz(fa)), SymReal(tz(fb))
    return SymBool(z3.Or(z3.And(fa.t <= 0, fb.t >= 0), z3.And(fa.t >= 0, fb.t <= 0)))


class WarnRecorder:
    def __init__(self, real):
        self._real = real
        self.calls = []

    def __getattr__(self, k):
        return getattr(self._real, k)

    def warn(self, *a, **k):
        self.calls.append((a, k))
