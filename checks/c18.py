"""C18 - vectorised root finders return a bracketed root for every lane.

The real `bisect` and `chandrupatla` are executed on symbolic brackets with `maxiter=k`; the
function is an uninterpreted per-lane F(lane, x) with non-decreasing monotonicity instantiated
between all evaluated points.  Every feasible path is enumerated and the property clauses are
z3 queries under the path condition.
"""
import itertools
import time

import numpy as np
import z3

import copulas.optimize as O

from symx.core import Ctx, SymBool, SymReal, explore, objarr, sym, tz, RV
from symx.report import Check
from symx.shim import NPShim, patched, has_sym
from .copsuite import pool_map

F = z3.Function('F', z3.RealSort(), z3.RealSort(), z3.RealSort())


def _f_sign(x):
    if isinstance(x, SymReal):
        if x > 0:
            return 1.0
        if x < 0:
            return -1.0
        return 0.0
    return float(np.sign(x))


def _f_abs(x):
    if isinstance(x, SymReal):
        return x if x >= 0 else -x
    return abs(x)


def _f_min(a, b):
    if isinstance(a, SymReal) or isinstance(b, SymReal):
        return a if a <= b else b
    return min(a, b) if a == a else a


def _f_max(a, b):
    if isinstance(a, SymReal) or isinstance(b, SymReal):
        return a if a >= b else b
    return max(a, b) if a == a else a


def _ew(f, *arrs):
    from symx.shim import _elementwise
    return _elementwise(f, *arrs)


class _Clamp:
    def __init__(self, lo, t):
        self.lo = lo
        self.t = t


class Shim18(NPShim):
    """forking (not merging) versions: every path condition stays a conjunction of polynomial
    constraints, which keeps z3's non-linear engine effective"""

    # sign/abs stay merged If-terms (inherited); they only feed comparisons

    abstract_t = True

    def minimum(self, a, b):
        # Only use in /repo's optimize module: the final clamp of the interpolation parameter t.
        # Sound over-approximation: t becomes an arbitrary real per lane and iteration, so every
        # clause is shown for *every* interpolation parameter (the clauses do not depend on t).
        if isinstance(b, _Clamp):
            def one(up, lo_, pos, t_=None):
                # bisection steps (t is the literal 0.5) are clamped exactly; an interpolated t (symbolic
                # formula) is abstracted to any value the clamp min(up, max(lo_, t)) can take:
                #   r <= up and r >= min(lo_, up)
                if t_ is not None and not isinstance(t_, SymReal):
                    return _f_min(up, _f_max(lo_, t_))
                if not isinstance(up, SymReal) or not isinstance(lo_, SymReal):
                    return _f_min(up, lo_) if not isinstance(lo_, SymReal) else up
                ctx = Ctx.cur
                lanes = ctx.notes.get('lanes', (0,))
                cnt = ctx.notes.setdefault('tcount', {})
                cnt[pos] = cnt.get(pos, 0) + 1
                r = SymReal(z3.Real(f't{ctx.notes.get("tag", "")}_{lanes[pos]}_{cnt[pos]}'))
                ctx.assume(r.t <= up.t, z3.Or(r.t >= lo_.t, r.t == up.t))
                return r
            if np.shape(a) == ():
                return one(a, b.lo, 0, b.t)
            ts = list(np.broadcast_to(np.asarray(b.t, dtype=object), np.shape(a)))
            return objarr([one(x, y, i, tt) for i, (x, y, tt) in enumerate(zip(list(a), list(b.lo), ts))])
        return _ew(_f_min, a, b) if (has_sym(a) or has_sym(b)) else np.minimum(a, b)

    def maximum(self, a, b):
        if self.abstract_t and (has_sym(a) or has_sym(b)):
            Ctx.cur.notes.setdefault('tlog', []).append(b)
            return _Clamp(a, b)
        return _ew(_f_max, a, b) if (has_sym(a) or has_sym(b)) else np.maximum(a, b)

    def clip(self, a, lo, hi, **k):
        if has_sym(a) or has_sym(lo) or has_sym(hi):
            return _ew(lambda x, l, h: _f_min(_f_max(x, l), h), a, lo, hi)
        return np.clip(a, lo, hi, **k)

    def logical_or(self, a, b):
        if has_sym(a) or has_sym(b):
            return _ew(lambda x, y: bool(x) or bool(y), a, b)
        return np.logical_or(a, b)

    def all(self, a, *args, **k):
        if has_sym(a):
            return all(bool(x) for x in np.asarray(a, dtype=object).flat)
        return np.all(a, *args, **k)

    def choose(self, c, choices, **k):
        a0, a1 = choices
        return _ew(lambda cc, x, y: y if cc else x, c, a0, a1)

    def logical_and(self, a, b):
        # the result is used as a boolean index: must be concrete -> fork per lane
        if has_sym(a) or has_sym(b):
            a_ = np.asarray(a, dtype=object)
            b_ = np.asarray(b, dtype=object)
            bc = np.broadcast(a_, b_)
            out = np.empty(bc.shape, dtype=bool)
            out.flat = [bool(x) and bool(y) for x, y in bc]
            if out.shape == ():
                return bool(out)
            return out
        return np.logical_and(a, b)

    def finfo(self, *a):
        return np.finfo(*a)

    def shape(self, x):
        if isinstance(x, (SymReal, SymBool)):
            return ()
        return np.shape(x)


def _has_div(t):
    st = [t]
    seen = set()
    while st:
        x = st.pop()
        if x.get_id() in seen:
            continue
        seen.add(x.get_id())
        if z3.is_app(x) and x.decl().kind() == z3.Z3_OP_DIV:
            return True
        st.extend(x.children())
    return False


def relax_iqi(cond):
    """conditions containing a product of two quotients (the `phi**2 < xi` tests that only choose
    between interpolation and bisection) are not recorded: both outcomes are explored"""
    st = [cond]
    seen = set()
    while st:
        x = st.pop()
        if x.get_id() in seen:
            continue
        seen.add(x.get_id())
        if z3.is_app(x) and x.decl().kind() == z3.Z3_OP_MUL:
            if sum(1 for c in x.children() if _has_div(c)) >= 2:
                return True
        st.extend(x.children())
    return False


def make_f(ctx, lanes, calls, scalar=False, tag='', lo=None, hi=None, valid_only=False):
    """f is Ackermannised by hand: every evaluation returns a fresh real, constrained to be
    non-decreasing (hence functionally consistent) with respect to all earlier evaluations."""
    def f(x):
        if scalar:
            xs = [x]
        else:
            xs = list(np.asarray(x, dtype=object))
        out = []
        for i, xi in enumerate(xs):
            lane = lanes[i]
            hit = [c for c in calls if c[0] == lane and tz(c[1]).eq(tz(xi))]
            if hit:
                # same argument term as an earlier evaluation: same value (functional consistency)
                calls.append((lane, xi, hit[0][2]))
                out.append(hit[0][2])
                continue
            n = sum(1 for c in calls if c[0] == lane)
            fx = SymReal(z3.Real(f'f{tag}_{lane}_{n}'))
            if valid_only and lo is not None:
                if tz(xi).eq(lo[i].t):
                    ctx.assume(fx.t <= 0)
                if tz(xi).eq(hi[i].t):
                    ctx.assume(fx.t >= 0)
            for (pl, px, pf) in calls:
                if pl == lane:
                    a, b = tz(px), tz(xi)
                    ctx.assume(z3.And(z3.Implies(a <= b, tz(pf) <= fx.t), z3.Implies(b <= a, fx.t <= tz(pf))))
            calls.append((lane, xi, fx))
            out.append(fx)
        if scalar:
            return out[0]
        return objarr(out)
    return f


def harness(algo, lanes, k, scalar=False, valid_only=False, tol=None, tag=''):
    def fn(ctx):
        calls = []
        ctx.notes['calls'] = calls
        ctx.notes['lanes'] = lanes
        ctx.notes['tag'] = tag
        lo = [sym(f'lo{l}') for l in lanes]
        hi = [sym(f'hi{l}') for l in lanes]
        f = make_f(ctx, lanes, calls, scalar, tag, lo, hi, valid_only)
        for a, b in zip(lo, hi):
            ctx.assume(a.t <= b.t)
        if scalar:
            r = getattr(O, algo)(f, lo[0], hi[0], maxiter=k)
            r = [r]
        else:
            xmin, xmax = objarr(lo), objarr(hi)
            kw = {'maxiter': k}
            if tol is not None:
                kw['tol'] = tol
            r = getattr(O, algo)(f, xmin, xmax, **kw)
            r = list(np.asarray(r, dtype=object).flat)
        return {'r': r, 'lo': lo, 'hi': hi, 'calls': list(calls)}
    return fn


def valid_bracket(lanes, calls):
    """conjunction of the sign conditions at the bracket ends, over the evaluations that happened"""
    cs = []
    for l in lanes:
        lo, hi = z3.Real(f'lo{l}'), z3.Real(f'hi{l}')
        for (pl, x, fx) in calls:
            if pl == l and tz(x).eq(lo):
                cs.append(tz(fx) <= 0)
            if pl == l and tz(x).eq(hi):
                cs.append(tz(fx) >= 0)
    return z3.And(*cs) if cs else z3.BoolVal(True)


def cross_consistency(callsA, callsB, lane=0):
    """two runs evaluate the same function on `lane`"""
    cs = []
    for (la, xa, fa) in callsA:
        for (lb, xb, fb) in callsB:
            if la == lane and lb == lane:
                a, b = tz(xa), tz(xb)
                cs.append(z3.And(z3.Implies(a <= b, tz(fa) <= tz(fb)), z3.Implies(b <= a, tz(fb) <= tz(fa))))
    return cs


def sgn(t):
    return z3.If(t > 0, 1, z3.If(t < 0, -1, 0))


def check_paths(algo, lanes, k, scalar=False, tlimit=900, nprocs=16):
    """explore (prefix-parallel) + per-path obligations; returns plain data."""
    from symx.par import par_explore
    sh = Shim18(havoc_empty=False, force_obj=True)
    t0 = time.time()
    Ctx.relax = staticmethod(relax_iqi) if algo == 'chandrupatla' else None
    with patched(O, np=sh):
        outs, exhaustive, total, dt = par_explore(
            harness(algo, lanes, k, scalar), lambda paths: analyse_paths(paths, algo, lanes, k, scalar),
            nprocs=nprocs, tlimit=tlimit, ieee_div=(algo == 'chandrupatla'), catch=(Exception, AssertionError))
    agg = {'algo': algo, 'lanes': list(lanes), 'k': k, 'scalar': scalar, 'paths': total, 'exhaustive': exhaustive,
           'stat': {'ok': 0, 'assert': 0, 'other': 0, 'unsupported': 0}, 'fails': [], 'nfails': 0, 'queries': 0,
           'obligations': 0, 'secs': time.time() - t0, 'samples': [], 'unknown_branches': 0}
    for o in outs:
        for k_ in agg['stat']:
            agg['stat'][k_] += o['stat'][k_]
        agg['fails'] = (agg['fails'] + o['fails'])[:10]
        for k_ in ('nfails', 'queries', 'obligations', 'unknown_branches'):
            agg[k_] += o[k_]
        agg['samples'] = (agg['samples'] + o['samples'])[:3]
    return agg


def analyse_paths(paths, algo, lanes, k, scalar):
    fails = []
    nq = 0
    nob = 0
    stat = {'ok': 0, 'assert': 0, 'other': 0, 'unsupported': 0}
    samples = []
    eps = float(np.finfo(float).eps)
    for p in paths:
        nq += p.ctx.queries
        s = z3.Solver()
        s.set('timeout', 30000)
        s.add(*p.ctx.pc)

        def valid(goal, what):
            nonlocal nq, nob
            nob += 1
            s.push()
            s.add(z3.Not(goal))
            r = s.check()
            nq += 1
            m = None
            if r == z3.sat:
                m = s.model()
            s.pop()
            if r != z3.unsat:
                mi = None
                if m is not None:
                    mi = model_inputs(m, lanes)
                    mi['F'] = model_graph(m, calls_p)
                fails.append({'what': what, 'verdict': str(r), 'decisions': list(p.ctx.decisions), 'model': mi})
            return r == z3.unsat
        if p.status == 'unsupported':
            stat['unsupported'] += 1
            fails.append({'what': 'unsupported: ' + str(p.exc), 'verdict': 'unsupported', 'decisions': list(p.ctx.decisions), 'model': None})
            continue
        calls_p = p.ctx.notes.get('calls', [])
        vb = valid_bracket(lanes, calls_p)
        if p.status == 'exc':
            if isinstance(p.exc, AssertionError):
                stat['assert'] += 1
                # rejected inputs must be invalid brackets
                valid(z3.Not(vb), 'AssertionError on a valid bracket')
            else:
                stat['other'] += 1
                fails.append({'what': f'unexpected {type(p.exc).__name__}: {p.exc}', 'verdict': 'exception',
                              'decisions': list(p.ctx.decisions), 'model': first_model(s, lanes)})
            continue
        stat['ok'] += 1
        v = p.value
        # a value was returned: the bracket must have been valid (invalid brackets are rejected)
        valid(vb, 'value returned for an invalid bracket')
        niter = len(v['calls']) // len(lanes) - 2
        for i, l in enumerate(lanes):
            r, lo, hi = v['r'][i], v['lo'][i], v['hi'][i]
            if not isinstance(r, SymReal):
                fails.append({'what': f'lane {l}: non-real result {r!r}', 'verdict': 'special', 'decisions': list(p.ctx.decisions),
                              'model': first_model(s, lanes)})
                continue
            valid(z3.And(lo.t <= r.t, r.t <= hi.t), f'lane {l}: result outside its bracket')
            pts = [(x, fx) for (pl, x, fx) in v['calls'] if pl == l]
            if algo == 'bisect':
                # exists evaluated a <= r <= b with f(a) <= 0 <= f(b) and b - a <= (hi-lo)/2^niter
                w = (hi.t - lo.t) / (2 ** niter)
                alts = []
                for (a, fa), (b, fb) in itertools.product(pts, pts):
                    alts.append(z3.And(tz(a) <= r.t, r.t <= tz(b), tz(fa) <= 0, tz(fb) >= 0, tz(b) - tz(a) <= w))
                valid(z3.Or(*alts), f'lane {l}: no evaluated bracket of width (hi-lo)/2^{niter} around the result')
                if niter < k:
                    # early exit only when every lane is below tol
                    valid(z3.Or(*[z3.And(tz(a) <= r.t, r.t <= tz(b), tz(fa) <= 0, tz(fb) >= 0, tz(b) - tz(a) < RV(1e-8))
                                  for (a, fa), (b, fb) in itertools.product(pts, pts)]),
                          f'lane {l}: early exit with bracket wider than tol')
            else:
                # result is an evaluated point and some evaluated point brackets a root with it
                alts = [z3.And(r.t == tz(xq), z3.Or(*[sgn(tz(fp)) * sgn(tz(fq)) <= 0 for (xp, fp) in pts])) for (xq, fq) in pts]
                valid(z3.Or(*alts), f'lane {l}: result is not an evaluated point bracketed by one of opposite sign')
                # the maintained bracket: the result is the end with the smaller |f| of a pair of *adjacent* evaluated
                # points with opposite signs (every other evaluated point lies outside the open interval between them)
                ab_ = lambda t_: z3.If(t_ >= 0, t_, -t_)  # noqa
                alts = []
                for (xq, fq) in pts:
                    for (xp, fp) in pts:
                        lo_, hi_ = z3.If(tz(xq) <= tz(xp), tz(xq), tz(xp)), z3.If(tz(xq) <= tz(xp), tz(xp), tz(xq))
                        alts.append(z3.And(r.t == tz(xq), sgn(tz(fp)) * sgn(tz(fq)) <= 0, ab_(tz(fq)) <= ab_(tz(fp)),
                                           *[z3.Not(z3.And(lo_ < tz(x_), tz(x_) < hi_)) for (x_, _f) in pts]))
                valid(z3.Or(*alts), f'lane {l}: result is not the smaller-|f| end of an adjacent sign-changing pair of evaluated points')
                if niter < k:
                    tol = 2 * RV(eps) * z3.If(r.t >= 0, r.t, -r.t) + RV(2 * eps)
                    alts = []
                    for (xq, fq) in pts:
                        near = [z3.And(sgn(tz(fp)) * sgn(tz(fq)) <= 0,
                                       z3.If(tz(xp) - r.t >= 0, tz(xp) - r.t, r.t - tz(xp)) < 2 * tol) for (xp, fp) in pts]
                        alts.append(z3.And(r.t == tz(xq), z3.Or(tz(fq) == 0, *near)))
                    valid(z3.Or(*alts), f'lane {l}: terminated but neither exact zero nor bracket < 2*tol')
        if len(samples) < 3:
            samples.append({'algo': algo, 'lanes': len(lanes), 'k': k, 'decisions': ''.join('T' if d else 'F' for d in p.ctx.decisions)[:60],
                            'iterations': niter, 'result0': str(v['r'][0])[:120]})
    return {'stat': stat, 'fails': fails[:10], 'nfails': len(fails), 'queries': nq, 'obligations': nob,
            'samples': samples, 'unknown_branches': sum(p.ctx.unknown_branches for p in paths)}


def model_inputs(m, lanes):
    """project a model onto the inputs: brackets and F's graph (as the finite interpretation)"""
    out = {}
    from symx.core import model_value
    for l in lanes:
        out[f'lo{l}'] = model_value(m, z3.Real(f'lo{l}'))
        out[f'hi{l}'] = model_value(m, z3.Real(f'hi{l}'))
    return out


def model_graph(m, calls):
    from symx.core import model_value
    return [(float(l), model_value(m, tz(x)), model_value(m, tz(fx))) for (l, x, fx) in calls]


def first_model(s, lanes):
    if s.check() == z3.sat:
        return model_inputs(s.model(), lanes)
    return None


def _syms(t):
    out = set()
    st = [t]
    seen = set()
    while st:
        x = st.pop()
        if x.get_id() in seen:
            continue
        seen.add(x.get_id())
        if z3.is_const(x) and x.decl().kind() == z3.Z3_OP_UNINTERPRETED:
            out.add(x.decl().name())
        st.extend(x.children())
    return out


def _lane_of(name):
    """lane index encoded in a symbol name: lo<l>, hi<l>, f<tag>_<l>_<n>, t<tag>_<l>_<n>"""
    if name.startswith('lo') or name.startswith('hi'):
        return int(name[2:])
    if name[0] in 'ft' and '_' in name:
        return int(name.split('_')[1])
    return None


def _project_paths(paths):
    """worker side: per ok-path, the lane-0 projection (serialised)"""
    out = []
    for p in paths:
        if p.status != 'ok':
            continue
        r0 = p.value['r'][0]
        if not isinstance(r0, SymReal):
            out.append({'special': repr(r0)})
            continue
        conj0 = []
        for c in p.ctx.pc:
            ls = {_lane_of(n) for n in _syms(c)}
            if ls <= {0}:
                conj0.append(c)
        rs = {_lane_of(n) for n in _syms(r0.t)}
        calls0 = [(tz(x).serialize(), tz(fx).serialize()) for (l, x, fx) in p.value['calls'] if l == 0]
        out.append({'iters': len(p.value['calls']) // 2 - 2, 'r0': r0.t.serialize(), 'r0s': str(r0.t),
                    'pc0': z3.And(*conj0).serialize() if conj0 else z3.BoolVal(True).serialize(),
                    'key': '|'.join(sorted(str(c) for c in conj0)), 'foreign': sorted(x for x in rs if x not in (0,)),
                    'calls0': calls0})
    return out


def lane_independence(algo, k, tlimit=600, nprocs=16):
    """Non-interference of lanes.  Every path of a 2-lane run is projected onto lane 0 (the
    conjuncts of its path condition and the result term that mention only lane-0 symbols).
    (a) lane 0's result term mentions no other lane's symbol; (b) two paths with the same number
    of iterations whose lane-0 projections are jointly satisfiable have equal lane-0 results.
    Together: for a fixed number of iterations the result of lane 0 is a function of lane 0's
    data alone (early exit is the only legitimate coupling)."""
    from symx.par import par_explore
    sh = Shim18(havoc_empty=False, force_obj=True)
    t0 = time.time()
    Ctx.relax = staticmethod(relax_iqi) if algo == 'chandrupatla' else None
    with patched(O, np=sh):
        outs, ex, total, dt = par_explore(
            harness(algo, (0, 1), k), lambda paths: (_project_paths(paths), analyse_paths(paths, algo, (0, 1), k, False)),
            nprocs=nprocs, tlimit=tlimit, ieee_div=(algo == 'chandrupatla'), catch=(Exception, AssertionError))
    recs = [r for o in outs for r in o[0]]
    pa = {'stat': {'ok': 0, 'assert': 0, 'other': 0, 'unsupported': 0}, 'fails': [], 'nfails': 0, 'queries': 0,
          'obligations': 0, 'unknown_branches': 0, 'samples': []}
    for o in outs:
        o = o[1]
        for k_ in pa['stat']:
            pa['stat'][k_] += o['stat'][k_]
        pa['fails'] = (pa['fails'] + o['fails'])[:10]
        for k_ in ('nfails', 'queries', 'obligations', 'unknown_branches'):
            pa[k_] += o[k_]
        pa['samples'] = (pa['samples'] + o['samples'])[:3]
    bad = []
    groups = {}
    for r in recs:
        if 'special' in r:
            bad.append({'what': 'special value result ' + r['special'], 'model': None})
            continue
        if r['foreign']:
            bad.append({'what': f"lane 0 result mentions symbols of lane(s) {r['foreign']}: {r['r0s'][:120]}", 'model': None})
        groups.setdefault((r['iters'], r['key']), {}).setdefault(r['r0s'], r)
    nq = 0
    # representatives: one record per (group, distinct result term)
    reps = [(g, r) for g, d in groups.items() for r in d.values()]
    s = z3.Solver()
    s.set('timeout', 20000)
    npairs = 0
    for i in range(len(reps)):
        gi, ri = reps[i]
        pci = z3.deserialize(ri['pc0'])
        r0i = z3.deserialize(ri['r0'])
        ci = [(z3.deserialize(x), z3.deserialize(f)) for x, f in ri['calls0']]
        for j in range(i + 1, len(reps)):
            gj, rj = reps[j]
            if gi[0] != gj[0]:
                continue
            npairs += 1
            if ri['r0s'] == rj['r0s']:
                continue
            # rename the second path's function-value symbols; the function is the same (monotone)
            pcj = z3.deserialize(rj['pc0'])
            r0j = z3.deserialize(rj['r0'])
            cj = [(z3.deserialize(x), z3.deserialize(f)) for x, f in rj['calls0']]
            ren = [(f, z3.Real(str(f) + "'")) for (_, f) in cj if z3.is_const(f)]
            # interpolation parameters t_<lane>_<iteration> are shared: t is a function of the lane's own history
            sub = lambda t_: z3.substitute(t_, *ren) if ren else t_  # noqa
            s.push()
            s.add(pci, sub(pcj))
            for (xa, fa) in ci:
                for (xb, fb) in cj:
                    xb_, fb_ = sub(xb), sub(fb)
                    s.add(z3.And(z3.Implies(xa <= xb_, fa <= fb_), z3.Implies(xb_ <= xa, fb_ <= fa)))
            # same interpolation parameters where both runs are at the same iteration
            s.add(r0i != sub(r0j))
            nq += 1
            v = s.check()
            if v != z3.unsat:
                bad.append({'what': f'lane-0 results differ for jointly satisfiable lane-0 projections ({v})',
                            'model': model_inputs(s.model(), (0,)) if v == z3.sat else None, 'ri': ri['r0s'][:100], 'rj': rj['r0s'][:100]})
            s.pop()
    return {'algo': algo, 'k': k, 'pairs': npairs, 'queries': nq + pa['queries'], 'bad': bad[:5], 'nbad': len(bad), 'exhaustive': ex,
            'secs': time.time() - t0, 'paths': total, 'groups': len(groups), 'pathres': pa}


def scalar_equiv(k, tlimit=600, nprocs=16):
    """chandrupatla: scalar input behaves like a one-element vector.  Product harness: both calls
    run in one symbolic execution on the same function (shared evaluation log) and bracket."""
    from symx.par import par_explore
    sh = Shim18(havoc_empty=False, force_obj=True)
    t0 = time.time()
    Ctx.relax = staticmethod(relax_iqi)

    def fn(ctx):
        calls = []
        ctx.notes['calls'] = calls
        ctx.notes['lanes'] = (0,)
        ctx.notes['tag'] = ''
        lo, hi = sym('lo0'), sym('hi0')
        ctx.assume(lo.t <= hi.t)
        fv = make_f(ctx, (0,), calls, False, 'V')
        fs = make_f(ctx, (0,), calls, True, 'S')
        res = []
        tlogs = []
        for scalar in (False, True):
            ctx.notes['tcount'] = {}
            ctx.notes['tlog'] = []
            tlogs.append(ctx.notes['tlog'])
            try:
                if scalar:
                    res.append(('ok', O.chandrupatla(fs, lo, hi, maxiter=k)))
                else:
                    res.append(('ok', O.chandrupatla(fv, objarr([lo]), objarr([hi]), maxiter=k)[0]))
            except AssertionError:
                res.append(('assert', None))
        ctx.notes['tlogs'] = tlogs
        return res

    def analyse(paths):
        bad = []
        nq = 0
        for p in paths:
            nq += p.ctx.queries
            if p.status != 'ok':
                bad.append({'what': f'{p.status}: {p.exc!r}', 'model': None})
                continue
            (s1, a), (s2, b) = p.value
            # the interpolation parameter chosen at each iteration must agree (literal 0.5 = bisection step)
            tv, ts = p.ctx.notes.get('tlogs', ([], []))
            for it, (x, y) in enumerate(zip(tv, ts)):
                x0 = list(np.asarray(x, dtype=object).flat)[0]
                y0 = list(np.asarray(y, dtype=object).flat)[0]
                same = (isinstance(x0, SymReal) == isinstance(y0, SymReal))
                if same and isinstance(x0, SymReal):
                    same = x0.t.eq(y0.t)
                    if not same:
                        s = z3.Solver()
                        s.set('timeout', 10000)
                        s.add(*p.ctx.pc)
                        s.add(x0.t != y0.t)
                        nq += 1
                        same = s.check() == z3.unsat
                elif same:
                    same = (x0 == y0)
                if not same:
                    s = z3.Solver()
                    s.add(*p.ctx.pc)
                    mi = first_model(s, (0,))
                    bad.append({'what': f'iteration {it + 1}: interpolation parameter differs between scalar and 1-vector input '
                                        f'({str(y0)[:40]} vs {str(x0)[:40]})', 'model': mi})
                    break
            if s1 != s2:
                s = z3.Solver()
                s.add(*p.ctx.pc)
                bad.append({'what': f'vector {s1} vs scalar {s2}', 'model': first_model(s, (0,))})
            elif s1 == 'ok':
                if isinstance(a, SymReal) and isinstance(b, SymReal):
                    if not a.t.eq(b.t):
                        s = z3.Solver()
                        s.set('timeout', 20000)
                        s.add(*p.ctx.pc)
                        s.add(a.t != b.t)
                        nq += 1
                        v = s.check()
                        if v != z3.unsat:
                            mi = model_inputs(s.model(), (0,)) if v == z3.sat else None
                            if mi is not None:
                                mi['F'] = model_graph(s.model(), p.ctx.notes['calls'])
                            bad.append({'what': f'scalar and 1-vector results differ ({v})', 'model': mi})
                elif not (a == b or (a != a and b != b)):
                    bad.append({'what': f'results differ {a} {b}', 'model': None})
        return {'bad': bad[:5], 'nbad': len(bad), 'queries': nq, 'n': len(paths)}
    with patched(O, np=sh):
        outs, ex, total, dt = par_explore(fn, analyse, nprocs=nprocs, tlimit=tlimit, ieee_div=True, catch=(Exception,))
    bad = [b for o in outs for b in o['bad']]
    return {'k': k, 'pairs': total, 'queries': sum(o['queries'] for o in outs), 'bad': bad[:5],
            'nbad': sum(o['nbad'] for o in outs), 'exhaustive': ex, 'secs': time.time() - t0, 'paths': total}


def task(a):
    kind = a[0]
    try:
        if kind == 'paths':
            return ('paths', a, check_paths(*a[1:]))
        if kind == 'lanes':
            return ('lanes', a, lane_independence(*a[1:]))
        if kind == 'scalar':
            return ('scalar', a, scalar_equiv(*a[1:]))
    except BaseException:
        import traceback
        return ('error', a, traceback.format_exc()[-1500:])


# ------------------------------------------------------------------ replay on the real code

def concrete_f_from_model(model, lane):
    """non-decreasing piecewise-linear interpolation of the model's finite graph of F(lane, .)"""
    pts = sorted({(x, fx) for (l, x, fx) in model.get('F', []) if abs(l - lane) < 1e-9})
    xs = [p[0] for p in pts]
    ys = [p[1] for p in pts]
    return xs, ys


def replay(data):
    import copulas.optimize as OO
    if data.get('what') == 'conformance':
        bad = conformance()
        print('\n'.join(bad))
        return bool(bad)
    if data.get('scalar'):
        return replay_scalar(data)
    if data.get('what') == 'lane dependence':
        return replay_lanes(data)
    model = data.get('model') or {}
    lanes = data['lanes']
    algo = data['algo']
    k = data['k']
    los = np.array([model.get(f'lo{l}', 0.0) for l in lanes], dtype=float)
    his = np.array([model.get(f'hi{l}', 1.0) for l in lanes], dtype=float)
    tabs = [concrete_f_from_model(model, l) for l in lanes]

    def f(x):
        x = np.atleast_1d(np.asarray(x, dtype=float))
        out = np.empty(len(x))
        for i in range(len(x)):
            xs, ys = tabs[i]
            if len(xs) == 0:
                out[i] = x[i]
            elif len(xs) == 1:
                out[i] = ys[0]
            else:
                out[i] = np.interp(x[i], xs, ys)
        return out
    lo0, hi0 = los.copy(), his.copy()
    ok_bracket = bool((f(lo0) <= 0).all() and (f(hi0) >= 0).all())
    evals = []

    def f_rec(x):
        y = f(x)
        evals.append((np.atleast_1d(np.asarray(x, dtype=float)).copy(), np.atleast_1d(y).copy()))
        return y
    try:
        r = getattr(OO, algo)(f_rec, los.copy(), his.copy(), maxiter=k)
    except AssertionError:
        print('AssertionError; valid bracket =', ok_bracket)
        return ok_bracket
    except Exception as e:
        print('raises', type(e).__name__, e)
        return True
    r = np.atleast_1d(r)
    print('result', r, 'bracket', lo0, hi0, 'valid', ok_bracket)
    if not ok_bracket:
        return True
    if not np.all((r >= lo0 - 1e-12) & (r <= hi0 + 1e-12)) or np.any(np.isnan(r)):
        return True
    if algo == 'bisect':
        # halving: a root must lie within (hi-lo)/2^k/2 + of the result; check the sign change around it
        w = (hi0 - lo0) / 2 ** k
        lo_ = np.maximum(r - w / 2 - 1e-12, lo0)
        hi_ = np.minimum(r + w / 2 + 1e-12, hi0)
        if np.any(f(lo_) > 1e-12) or np.any(f(hi_) < -1e-12):
            return True
    else:
        # the result is the smaller-|f| end of an adjacent sign-changing pair of evaluated points
        for i in range(len(r)):
            pts = [(float(x[i]), float(y[i])) for x, y in evals if len(x) > i]
            ok = False
            for xq, fq in pts:
                if xq != r[i]:
                    continue
                for xp, fp in pts:
                    a_, b_ = min(xq, xp), max(xq, xp)
                    if np.sign(fp) * np.sign(fq) <= 0 and abs(fq) <= abs(fp) and not any(a_ < x_ < b_ for x_, _ in pts):
                        ok = True
            if not ok:
                print(f'lane {i}: result {r[i]} is not the smaller-|f| end of an adjacent sign-changing pair among the evaluated points {pts}')
                return True
    return False


def conformance():
    """the real solvers with their default iteration budget on a few closed-form functions: float and integer
    bracket arrays, roots at either bracket end, mixed valid/invalid lanes (must be rejected), scalar input"""
    import copulas.optimize as OO
    out = []
    fs = {'x - r': (lambda r: (lambda x: x - r)), '(x - r)^3': (lambda r: (lambda x: (x - r) ** 3)),
          'tanh(x - r)': (lambda r: (lambda x: np.tanh(x - r))), 'expm1(x - r)': (lambda r: (lambda x: np.expm1(x - r)))}
    cases = [('float brackets', np.array([0.0, 0.0]), np.array([5.0, 7.0]), np.array([2.3, 2.3])),
             ('integer brackets', np.array([0, 0]), np.array([5, 7]), np.array([2.3, 2.3])),
             ('integer brackets, one lane', np.array([0]), np.array([100]), np.array([10.0])),
             ('root at xmax', np.array([-1.0, 0.0]), np.array([7.0, 2.0]), np.array([7.0, 2.0])),
             ('root at xmin', np.array([2.0, -3.0]), np.array([5.0, 4.0]), np.array([2.0, -3.0])),
             ('mixed: one root at xmax, one interior', np.array([-1.0, 0.0]), np.array([7.0, 5.0]), np.array([7.0, 1.25])),
             ('large |x|', np.array([0.0, 0.0]), np.array([2e5, 3.0]), np.array([123456.789, 1.5]))]
    for algo in ('bisect', 'chandrupatla'):
        fn = getattr(OO, algo)
        for fname, mk_ in fs.items():
            for cname, lo, hi, roots in cases:
                f = mk_(roots)
                lo0, hi0 = lo.copy(), hi.copy()
                try:
                    with np.errstate(all='ignore'):
                        r = np.atleast_1d(np.asarray(fn(f, lo, hi), dtype=float))
                except Exception as e:
                    out.append(f'{algo}, f = {fname}, {cname} {lo0.tolist()}..{hi0.tolist()}: raises {type(e).__name__}: {e}')
                    continue
                tol = 1e-6 if fname != '(x - r)^3' or algo == 'bisect' else 2e-3    # chandrupatla may stop at |f| tiny for the flat cubic
                if cname == 'large |x|' and fname != 'x - r':
                    continue        # tanh / expm1 saturate or overflow over a bracket of width 2e5
                if r.shape != roots.shape or np.any(np.abs(r - roots) > tol) or np.any(r < lo0 - 1e-9) or np.any(r > hi0 + 1e-9):
                    out.append(f'{algo}, f = {fname}, {cname} {lo0.tolist()}..{hi0.tolist()}: returns {r.tolist()}, roots {roots.tolist()}')
                if not (np.array_equal(lo, lo0) and np.array_equal(hi, hi0)):
                    out.append(f'{algo}, {cname}: bracket arrays modified')
        # an invalid bracket among valid ones must be rejected
        for lo, hi in ((np.array([0.0, 3.0]), np.array([3.0, 5.0])), (np.array([0.0, 0.0, 0.0]), np.array([5.0, 1.0, 4.0]))):
            try:
                with np.errstate(all='ignore'):
                    r = fn(lambda x: x - 2.3, lo.copy(), hi.copy())
                out.append(f'{algo}: brackets {lo.tolist()}..{hi.tolist()} for f = x - 2.3 contain an invalid lane but {np.asarray(r).tolist()} is returned')
            except AssertionError:
                pass
            except Exception as e:
                out.append(f'{algo}: invalid bracket raises {type(e).__name__} instead of being rejected by the assertion')
    # lanes of very different magnitude in one batch: every lane as if it were alone
    roots_s = np.array([3.61e-6, 1.2e-6, 2.9e-6])

    def f_mixed(x):
        x = np.asarray(x, dtype=float)
        if x.shape == (4,):
            return np.append(np.expm1((x[:3] - roots_s) / 1e-6), x[3] - 3.3e9)
        raise ValueError('shape')
    lo_m, hi_m = np.array([0.0, 0.0, 0.0, 0.0]), np.array([4e-6, 4e-6, 4e-6, 8e9])
    for algo in ('bisect', 'chandrupatla'):
        try:
            with np.errstate(all='ignore'):
                rb = np.asarray(getattr(OO, algo)(f_mixed, lo_m.copy(), hi_m.copy()), dtype=float)
            tol_s = 2e-8 if algo == 'bisect' else 1e-9
            if np.any(np.abs(rb[:3] - roots_s) > tol_s) or abs(rb[3] - 3.3e9) > 1e-3:
                out.append(f'{algo}: lanes with roots {roots_s.tolist()} batched with a lane whose root is 3.3e9 return {rb.tolist()} '
                           f'(each lane is solved correctly on its own)')
        except Exception as e:
            out.append(f'{algo}: mixed-magnitude batch raises {type(e).__name__}: {e}')
    try:
        a = float(np.asarray(OO.chandrupatla(lambda x: x - 2.3, 0.0, 5.0)))
        b = float(np.asarray(OO.chandrupatla(lambda x: x - 2.3, np.array([0.0]), np.array([5.0])))[0])
        if abs(a - b) > 1e-12 or abs(a - 2.3) > 1e-6:
            out.append(f'chandrupatla scalar input gives {a}, one-element vector {b}, root 2.3')
    except Exception as e:
        out.append(f'chandrupatla scalar input raises {type(e).__name__}: {e}')
    return out


def run(tier, seed):
    ck = Check('C18', tier, seed, 'model_checking',
               'exhaustive path enumeration of the real bisect/chandrupatla with maxiter=k on symbolic brackets and an '
               'uninterpreted monotone f; z3 decides every clause on every path')
    ck.encode(O.bisect, O.chandrupatla)
    ck.stubs = ['f: uninterpreted F(lane, x), non-decreasing between all evaluated points (Ackermann instances)',
                'np.sign/abs/clip/choose/minimum/maximum/logical_or: merged If-terms; logical_and: concrete (forks)']
    if tier == 'quick':
        jobs = [('paths', 'bisect', (0,), 3), ('paths', 'chandrupatla', (0,), 2), ('paths', 'chandrupatla', (0,), 1, True),
                ('lanes', 'bisect', 2), ('lanes', 'chandrupatla', 1), ('scalar', 2)]
        ck.bounds = {'bisect': 'lanes<=2, maxiter k<=3 (1 lane) / 2 (2 lanes)', 'chandrupatla': 'lanes<=2, k<=2 (1 lane) / 1 (2 lanes); scalar-vs-vector product k<=1'}
    else:
        jobs = [('paths', 'bisect', (0,), 6), ('paths', 'chandrupatla', (0,), 2), ('paths', 'chandrupatla', (0,), 2, True),
                ('lanes', 'bisect', 3), ('lanes', 'chandrupatla', 1), ('scalar', 2, 1500)]
        ck.bounds = {'bisect': 'lanes<=2, maxiter k<=6 (1 lane) / 3 (2 lanes)', 'chandrupatla': 'lanes<=2, k<=2 (1 lane) / 1 (2 lanes); scalar k<=2'}
    ck.bounds['values'] = 'brackets lo<=hi and all f-values unbounded reals; tol/eps at their coded defaults'
    ck.outside = ['convergence of chandrupatla within maxiter=50 for arbitrary continuous f (empirical statement)',
                  'bisect: 1e-8 after 50 halvings follows arithmetically from the per-iteration halving obligation (width < 1.1e7)',
                  'continuity of f is not expressible; only monotonicity between evaluated points is assumed',
                  'float64 rounding']
    ck.assumptions = ['f non-decreasing (instantiated between every pair of evaluated points)', 'exact real arithmetic']
    results = [task(j) for j in jobs]
    for kind, a, r in results:
        if kind == 'error':
            ck.inconcl(f'harness error in {a}: {r}')
            continue
        ck.queries += r['queries']
        ck.solver_s += r['secs']
        ck.paths += r['paths']
        ck.states += r['paths']
        ck.transitions += r.get('obligations', r.get('pairs', 0))
        if not r['exhaustive']:
            ck.inconcl(f'{a}: exploration not exhaustive within the time limit')
        if kind == 'paths':
            name = f"{r['algo']} lanes={len(r['lanes'])} k={r['k']}{' scalar' if r['scalar'] else ''}: {r['paths']} paths {r['stat']}"
            ck.ob(name, 'unsat' if r['nfails'] == 0 else 'sat', r['secs'], queries=0, paths=r['paths'])
            for s_ in r['samples']:
                ck.sample(s_)
            if r['unknown_branches']:
                ck.notes.append(f"{name}: {r['unknown_branches']} branch feasibility checks were 'unknown' (treated as feasible)")
            for fl in r['fails'][:3]:
                rep = {'algo': r['algo'], 'lanes': r['lanes'], 'k': r['k'], 'model': fl['model'], 'what': fl['what']}
                if fl['model'] is not None and not r['scalar'] and replay(rep):
                    ck.violation(f"{r['algo']}:{fl['what'].split(':')[-1].strip()}", f"{r['algo']}: {fl['what']} (lanes={len(r['lanes'])}, k={r['k']})", rep)
                else:
                    ck.inconcl(f"{name}: {fl['what']} [{fl['verdict']}] not reproduced on the real code")
        elif kind == 'lanes':
            pr = r['pathres']
            nm2 = f"{r['algo']} lanes=2 k={r['k']}: {r['paths']} paths {pr['stat']}"
            ck.ob(nm2, 'unsat' if pr['nfails'] == 0 else 'sat', 0.0, queries=0, paths=r['paths'])
            ck.transitions += pr['obligations']
            for fl in pr['fails'][:3]:
                rep = {'algo': r['algo'], 'lanes': [0, 1], 'k': r['k'], 'model': fl['model'], 'what': fl['what']}
                if fl['model'] is not None and replay(rep):
                    ck.violation(f"{r['algo']}:{fl['what'].split(':')[-1].strip()}", f"{r['algo']}: {fl['what']} (lanes=2, k={r['k']})", rep)
                else:
                    ck.inconcl(f"{nm2}: {fl['what']} [{fl['verdict']}] not reproduced on the real code")
            name = f"{r['algo']} lane independence k={r['k']}: {r['pairs']} path pairs"
            ck.ob(name, 'unsat' if r['nbad'] == 0 else 'sat', r['secs'], queries=0, paths=r['paths'])
            for b in r['bad'][:2]:
                rep = {'algo': r['algo'], 'lanes': [0, 1], 'k': r['k'], 'model': b['model'], 'what': 'lane dependence'}
                if b['model'] is not None and replay_lanes(rep):
                    ck.violation(f"{r['algo']}:lane-independence", f"{r['algo']}: lane 0 result depends on lane 1 data", rep)
                else:
                    ck.inconcl(f'{name}: dependence candidate not reproduced: {b}')
        else:
            name = f"chandrupatla scalar == 1-vector k={r['k']}: {r['pairs']} compatible path pairs"
            ck.ob(name, 'unsat' if r['nbad'] == 0 else 'sat', r['secs'], queries=0, paths=r['paths'])
            for b in r['bad'][:2]:
                rep = {'algo': 'chandrupatla', 'lanes': [0], 'k': r['k'], 'model': b['model'] or {}, 'what': 'scalar', 'scalar': True}
                if replay_scalar(rep):
                    ck.violation('chandrupatla:scalar', f"chandrupatla scalar input differs from 1-vector: {b['what']}", rep)
                else:
                    ck.inconcl(f'{name}: {b} not reproduced')
    bad = conformance()
    ck.traces_validated = 2 * 4 * 6 + 6
    for b in bad[:4]:
        key = 'conformance:' + ('integer brackets' if 'integer brackets' in b else b.split(':')[0][:40])
        ck.violation(key, b, {'what': 'conformance'})
    return ck.finish()


def replay_lanes(data):
    import copulas.optimize as OO
    m = data['model']
    k = data['k']
    outs = []
    for other in (1, 2):
        lanes = [0, other]
        los = np.array([m.get(f'lo{l}', 0.0) for l in lanes])
        his = np.array([m.get(f'hi{l}', 1.0) for l in lanes])
        tabs = [concrete_f_from_model(m, l) for l in lanes]

        def f(x, tabs=tabs):
            return np.array([np.interp(x[i], *tabs[i]) if len(tabs[i][0]) > 1 else (tabs[i][1][0] if tabs[i][0] else x[i]) for i in range(len(x))])
        try:
            outs.append(getattr(OO, data['algo'])(f, los, his, maxiter=k)[0])
        except Exception as e:
            outs.append(repr(e))
    print(outs)
    return outs[0] != outs[1]


def replay_scalar(data):
    import copulas.optimize as OO
    m = data['model']
    k = data['k']
    xs, ys = concrete_f_from_model(m, 0)

    def fv(x):
        return np.interp(x, xs, ys) if len(xs) > 1 else (np.full(np.shape(x), ys[0]) if xs else x)
    res = []
    for scalar in (False, True):
        lo, hi = m.get('lo0', 0.0), m.get('hi0', 1.0)
        try:
            if scalar:
                res.append(float(OO.chandrupatla(lambda x: float(fv(x)), lo, hi, maxiter=k)))
            else:
                res.append(float(OO.chandrupatla(fv, np.array([lo]), np.array([hi]), maxiter=k)[0]))
        except Exception as e:
            res.append(type(e).__name__)
    print(res)
    if res[0] != res[1]:
        return True
    # the abstraction hides the numeric value of t: also run the standard flat-root family to completion
    for (g, lo, hi) in _FAMILY:
        a = float(OO.chandrupatla(lambda x: np.asarray(g(x)), np.array([lo]), np.array([hi]))[0])
        b = float(OO.chandrupatla(lambda x: float(g(x)), lo, hi))
        if not (abs(a - b) <= 1e-9 * max(1.0, abs(hi - lo))):
            print('family witness', lo, hi, a, b)
            return True
    return False


_FAMILY = [(lambda x: (x + 3.7) ** 3, -50.0, 2.0), (lambda x: (x - 1.3) ** 5, -4.0, 9.0), (lambda x: np.tanh(x - 0.2), -3.0, 5.0),
           (lambda x: np.exp(x) - 2.0, -1.0, 4.0), (lambda x: 3.0 * x - 1.0, -10.0, 10.0), (lambda x: (x - 10.0) ** 3, 0.0, 100.0)]
