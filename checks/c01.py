"""C01 - Gaussian-copula synthetic data keeps schema, marginals and dependence.

Decided: the exact transformation fit/sample apply (schema, the RNG request, out = Q_j(Phi(Z_j))
aligned by column name, constant columns exact, the normal-score frame handed to corr()).
That the output then has the fitted marginals and the rank dependence of R is the
probability-integral-transform theorem (trusted); every statistical clause is outside the claim."""
import time

import numpy as np
import pandas as pd
import z3

import copulas.multivariate.gaussian as G
import copulas.univariate.base as UB
import copulas.univariate.gaussian as UG
import copulas.utils as UT
from copulas.multivariate.gaussian import GaussianMultivariate
from copulas.univariate import GaussianUnivariate

from symx.core import Ctx, SymReal, explore, objarr, tz
from symx.report import Check
from symx.rng import RNGModel, D
from symx.shim import NPShim, patched, patched_many
from . import gm
from .c13 import score
from .copsuite import pool_map

NAMES = ['c', 'a', 'b', 'd']


def configs(cols):
    return {
        'class': gm.StubDist,
        'name': 'checks.gm.StubDist',
        'instance': gm.StubDist(),
        'dict': {cols[0]: gm.StubDistB, cols[-1]: 'checks.gm.StubDist'},   # middle columns use the default
        'default': None,
    }


def fit_sample(d, rows, n, cfg):
    cols = NAMES[:d]
    xs = [[SymReal(z3.Real(f'x_{r}_{j}')) for j in range(d)] for r in range(rows)]
    res = []

    def fn(ctx):
        rng = RNGModel()
        cs = gm.CorrStub()
        gm.StubDist.COLIDX = {c: j for j, c in enumerate(cols)}
        gm.StubDist.FITS = []
        gm.StubDist.RAISE_ON = set()
        dist = configs(cols)[cfg]
        X = pd.DataFrame(objarr(xs), columns=cols)
        with gm.gm_patches(rng=rng), patched(pd.DataFrame, corr=lambda self, *a, **k: cs(self, *a, **k)), \
                patched(G, DEFAULT_DISTRIBUTION=gm.StubDefault):
            m = GaussianMultivariate(distribution=dist) if dist is not None else GaussianMultivariate()
            m.fit(X)
            corr = m.correlation.copy()
            out = m.sample(n)
        return {'out': out, 'req': list(rng.requests), 'corr': corr, 'calls': cs.calls, 'fits': list(gm.StubDist.FITS),
                'unis': [type(u).__name__ for u in m.univariates]}
    with gm.gm_patches():
        paths, ex, _ = explore(fn, max_paths=5000, tlimit=300)
    if not ex:
        res.append(('exploration exhaustive', 'unknown'))
    for p in paths:
        if p.status != 'ok':
            res.append((f'fit/sample raises {type(p.exc).__name__}: {str(p.exc)[:120]}', 'sat'))
            continue
        v = p.value
        out = v['out']
        ok = isinstance(out, pd.DataFrame) and list(out.columns) == cols and len(out) == n
        res.append((f'sample({n}) has exactly n rows and the training columns in order', 'unsat' if ok else 'sat'))
        if not ok:
            continue
        # marginals configured per column
        want = {'class': ['StubDist'] * d, 'name': ['StubDist'] * d, 'instance': ['StubDist'] * d, 'default': ['StubDefault'] * d,
                'dict': ['StubDistB'] + ['StubDefault'] * (d - 2) + ['StubDist']}[cfg]
        res.append(('every column is modelled by the configured distribution', 'unsat' if v['unis'] == want else 'sat'))
        # each marginal was fitted on its own column
        okf = len(v['fits']) == d and all(f[1] == cols[j] and all(tz(f[2][r]).eq(xs[r][j].t) for r in range(rows)) for j, f in enumerate(v['fits']))
        res.append(('marginal j is fitted on training column j', 'unsat' if okf else 'sat'))
        # fit-time frame given to corr()
        calls = v['calls']
        okc = len(calls) == 1 and calls[0][0].shape == (rows, d) and all(
            z3.is_true(z3.simplify(tz(calls[0][0][r, j]) == score(j, xs[r][j]))) for r in range(rows) for j in range(d))
        res.append(('correlation is computed on PhiInv(clip(F_j(x_rj))), training order', 'unsat' if okc else 'sat'))
        # RNG request
        req = v['req']
        okr = len(req) == 1 and req[0]['kind'] == 'multivariate_normal' and req[0]['n'] == n * d
        if okr:
            mean, cov = req[0]['params']
            C = v['corr'].to_numpy()
            cov = np.asarray(cov.to_numpy() if hasattr(cov, 'to_numpy') else cov, dtype=object)
            okr = all(float(x) == 0.0 for x in np.asarray(mean, dtype=float)) and cov.shape == (d, d) and all(
                (tz(cov[i, j]).eq(tz(C[i, j])) or z3.is_true(z3.simplify(tz(cov[i, j]) == tz(C[i, j])))) for i in range(d) for j in range(d))
        res.append(('one draw request: multivariate_normal(mean 0, cov = fitted correlation, size n)', 'unsat' if okr else 'sat'))
        if not okr:
            continue
        st = req[0]['state']
        s = z3.Solver()
        s.add(*p.ctx.pc)
        bad = []
        nonan = True
        for r in range(n):
            for j, c in enumerate(cols):
                o = out[c].iloc[r]
                if not isinstance(o, SymReal):
                    nonan = nonan and (o == o)
                    bad.append(z3.BoolVal(True))
                    continue
                bad.append(o.t != gm.QJ(z3.IntVal(j), gm.PHI(D(st, z3.IntVal(r * d + j)))))
        s.add(z3.Or(*bad))
        res.append(('out[r][col_j] = Q_j(Phi(Z[r][j])): same column on both sides', str(s.check())))
        res.append(('no missing values (Q_j total, Phi in (0,1))', 'unsat' if nonan else 'sat'))
    return res


def constant_column(rows, n):
    """a constant training column is reproduced exactly (real GaussianUnivariate, scipy stubbed)"""
    cols = ['k', 'v']
    c = SymReal(z3.Real('const'))
    xs = [[c, SymReal(z3.Real(f'x_{r}'))] for r in range(rows)]
    res = []

    def fn(ctx):
        rng = RNGModel()
        cs = gm.CorrStub()
        ush = NPShim(havoc_empty=False, force_obj=False)
        X = pd.DataFrame(objarr(xs), columns=cols)
        ctx.assume(z3.Or(*[xs[r][1].t != xs[0][1].t for r in range(1, rows)]))   # second column not constant
        mc = gm.ModelClassStub('norm', rng)
        with gm.gm_patches(rng=rng), patched(pd.DataFrame, corr=lambda self, *a, **k: cs(self, *a, **k)), \
                patched(UB, np=ush), patched(UG, np=ush), patched(GaussianUnivariate, MODEL_CLASS=mc):
            m = GaussianMultivariate(distribution=GaussianUnivariate)
            m.fit(X)
            out = m.sample(n)
        return out
    with gm.gm_patches():
        paths, ex, _ = explore(fn, max_paths=2000, tlimit=200)
    for p in paths:
        if p.status != 'ok':
            res.append((f'constant column: fit/sample raises {type(p.exc).__name__}: {str(p.exc)[:120]}', 'sat'))
            continue
        out = p.value
        s = z3.Solver()
        s.add(*p.ctx.pc)
        s.add(z3.Or(*[tz(out['k'].iloc[r]) != c.t for r in range(n)]))
        res.append(('constant training column is reproduced exactly in every sampled row', str(s.check())))
    if not paths:
        res.append(('constant column: no feasible path', 'unknown'))
    return res


def task(a):
    t0 = time.time()
    try:
        if a[0] == 'fs':
            return (a, fit_sample(*a[1:]), time.time() - t0)
        return (a, constant_column(*a[1:]), time.time() - t0)
    except BaseException:
        import traceback
        return (a, [('harness error ' + traceback.format_exc()[-1500:], 'error')], 0.0)


def concrete_violation():
    from scipy import stats
    from copulas.univariate import BetaUnivariate, GaussianKDE
    rs = np.random.RandomState(3)
    n = 80
    base = rs.multivariate_normal([0, 0, 0], [[1, .7, -.2], [.7, 1, .1], [-.2, .1, 1]], n)
    t = pd.DataFrame({'c': base[:, 0] * 2 + 1, 'a': np.exp(base[:, 1]), 'k': np.full(n, 4.25), 'b': base[:, 2]})
    for nm, dist in (('default', None), ('class', GaussianUnivariate), ('name', 'copulas.univariate.GaussianUnivariate'),
                     ('instance', GaussianKDE(bw_method='silverman')), ('instance without recorded arguments', GaussianUnivariate()),
                     ('dict sharing one instance', dict.fromkeys(['c', 'a', 'b'], GaussianUnivariate())), ('dict', {'c': GaussianUnivariate, 'a': 'copulas.univariate.gamma.GammaUnivariate'})):
        m = GaussianMultivariate(distribution=dist, random_state=5) if dist is not None else GaussianMultivariate(random_state=5)
        try:
            m.fit(t)
            out = m.sample(7)
        except Exception as e:
            return True, f'{nm}: raises {type(e).__name__}: {e}'
        if list(out.columns) != list(t.columns) or len(out) != 7 or out.isna().any().any():
            return True, f'{nm}: schema {list(out.columns)} {len(out)} nan={out.isna().any().any()}'
        if not (out['k'] == 4.25).all():
            return True, f'{nm}: constant column not reproduced: {out["k"].to_numpy()}'
        # every column is modelled by its own marginal: CDF of the column's median is about 1/2
        if len({id(u) for u in m.univariates}) != len(m.univariates):
            return True, f'{nm}: several columns share one marginal object'
        for j, c in enumerate(t.columns):
            if c == 'k':
                continue
            med = float(np.median(t[c]))
            v_ = float(np.asarray(m.univariates[j].cdf(np.array([med])))[0])
            if not 0.2 < v_ < 0.8:
                return True, f'{nm}: marginal of column {c} puts CDF {v_:.3f} at the column median (fitted on another column?)'
        # the dependence handed to the sampler is the Pearson correlation of the normal scores (0 with the constant column)
        from copulas.utils import EPSILON
        U = np.column_stack([np.clip(np.asarray(m.univariates[j].cdf(t[c].to_numpy()), dtype=float), EPSILON, 1 - EPSILON)
                             for j, c in enumerate(t.columns)])
        with np.errstate(all='ignore'):
            P = np.nan_to_num(pd.DataFrame(stats.norm.ppf(U)).corr().to_numpy(), nan=0.0)
        A = m.correlation.to_numpy()
        off = ~np.eye(4, dtype=bool)
        if not np.allclose(A[off], P[off], atol=1e-8):
            i, j = np.argwhere(off & ~np.isclose(A, P, atol=1e-8))[0]
            return True, (f'{nm}: fitted correlation between {t.columns[i]!r} and {t.columns[j]!r} is {A[i, j]:+.3f}, the normal scores of the '
                          f'training columns have {P[i, j]:+.3f}')
        # the sample is Q_j(Phi(Z)) of the seeded normal draws
        st = np.random.RandomState(5)
        Z = st.multivariate_normal(np.zeros(4), m.correlation.to_numpy(), size=7)
        for j, c in enumerate(t.columns):
            want = m.univariates[j].percent_point(stats.norm.cdf(Z[:, j]))
            if not np.allclose(out[c].to_numpy(), want, rtol=1e-7, atol=1e-9):
                return True, f'{nm}: column {c} is not Q_j(Phi(Z_j)) of the seeded draws'
    return False, ''


def replay(d):
    bad, detail = concrete_violation()
    print(detail)
    return bad


def run(tier, seed):
    ck = Check('C01', tier, seed, 'model_checking',
               'symbolic execution of the real fit + sample on symbolic tables with stub marginals, pandas corr() contract stub and '
               'a symbolic RNG; z3 decides the dataflow clauses on every path')
    ck.encode(GaussianMultivariate.fit, GaussianMultivariate._fit_columns, GaussianMultivariate._get_distribution_for_column,
              GaussianMultivariate._fit_column, GaussianMultivariate._get_correlation, GaussianMultivariate._get_normal_samples,
              GaussianMultivariate.sample, GaussianMultivariate._transform_to_normal)
    ck.stubs = ['marginals: stub distributions with uninterpreted F_j / Q_j (constant-column run: real GaussianUnivariate, scipy.stats.norm as uninterpreted functions)',
                'DataFrame.corr(): Pearson contract', 'np.random: RNG model', 'stats.norm.cdf/ppf: uninterpreted Phi/PhiInv']
    cases = [(2, 2, 2), (3, 2, 1)] if tier == 'quick' else [(2, 2, 2), (3, 2, 2), (3, 3, 1), (4, 2, 1)]
    ck.bounds = {'(columns, training rows, sampled rows)': cases, 'marginal configurations': ['class', 'name', 'instance', 'per-column dict with default for unnamed columns'] }
    ck.outside = ['"distributed according to the fitted marginal", "rank dependence equals the fitted correlation", "recovered within sampling error": '
                  'statistical clauses (probability-integral-transform theorem given the decided transformation); not decided',
                  "numpy's multivariate_normal sampler",
                  'the all-default configuration (real selecting Univariate) runs only in the concrete witness suite; selection itself is C05']
    ck.assumptions = ['stub contracts; exact real arithmetic']
    jobs = [('fs', d, rows, n, cfg) for (d, rows, n) in cases for cfg in ('class', 'name', 'instance', 'dict')]
    jobs.append(('const', 2, 2))
    for a, res, secs in pool_map(task, jobs):
        agg = {}
        for name, st in res:
            agg.setdefault(name, []).append(st)
        for name, sts in agg.items():
            ck.paths += len(sts)
            ck.states += len(sts)
            ck.transitions += len(sts)
            bad = [x for x in sts if x != 'unsat']
            nm = f'{a}: {name} [{len(sts)} paths]'
            ck.ob(nm, 'unsat' if not bad else bad[0], secs / max(1, len(agg)), queries=len(sts))
            if bad:
                b, detail = concrete_violation()
                if b:
                    ck.violation(name[:60], f'{nm}: {detail}', {})
                else:
                    ck.inconcl(f'{nm}: {bad[0]}; the concrete witness suite does not reproduce it')
    b, detail = concrete_violation()
    ck.traces_validated = 5
    if b:
        ck.violation('conformance', detail, {})
    return ck.finish()
