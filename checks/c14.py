"""C14 - serialisation round trips preserve every model's observable behaviour.

Symbolic part: for models fitted on symbolic data (scipy estimators as uninterpreted functions)
to_dict(from_dict(to_dict(m))) == to_dict(m) leaf by leaf (z3 equality on symbolic leaves), the
class is preserved (the selecting wrapper becomes the selected family), and the state that
pdf/cdf/ppf/sample read is equal.  Concrete part (finite, no quantifier left): JSON / pickle
encodability, dispatch of the generic from_dict entry points, identical sample streams."""
import copy
import io
import json
import os
import pickle
import tempfile
import time
import warnings

import numpy as np
import pandas as pd
import z3

import copulas.multivariate.gaussian as G
import copulas.multivariate.tree as TR
import copulas.multivariate.vine as VN
import copulas.univariate.gaussian_kde as M_KDE
from copulas.bivariate import Bivariate, Clayton, Frank, Gumbel
from copulas.multivariate import GaussianMultivariate, Multivariate, VineCopula
from copulas.univariate import GaussianKDE, GaussianUnivariate, Univariate

from symx.core import Ctx, SymReal, explore, objarr, sym, tz
from symx.report import Check
from symx.rng import RNGModel
from symx.shim import NPShim, patched
from . import gm
from .c19 import FAMILIES, KDEStub, diff_state, leaf, state_of, uni_patches
from .copsuite import pool_map


def dict_diffs(a, b, solver, path=''):
    """structural comparison of two to_dict() outputs; symbolic leaves compared by the solver"""
    return diff_state({'d': leaf_any(a)}, {'d': leaf_any(b)}, solver)


def leaf_any(v):
    if isinstance(v, dict):
        return ('dict', tuple((str(k), leaf_any(x)) for k, x in sorted(v.items(), key=lambda kv: str(kv[0]))))
    if isinstance(v, (list, tuple)):
        return ('list', tuple(leaf_any(x) for x in v))
    if isinstance(v, (set, frozenset)):
        return ('list', tuple(leaf_any(x) for x in sorted(v)))
    if isinstance(v, np.ndarray):
        return ('list', tuple(leaf_any(x) for x in v.tolist())) if v.dtype != object else ('list', tuple(leaf_any(x) for x in v.flat))
    return leaf(v)


# ---------------------------------------------------------------- univariates

def uni_roundtrip(fam, constant, via_wrapper=False):
    cls, kw = FAMILIES[fam]
    n = 3
    X = [sym('c')] * n if constant else [sym(f'x{i}') for i in range(n)]

    def fn(ctx):
        rng = RNGModel()
        if not constant:
            ctx.assume(X[0].t != X[1].t)
        with uni_patches(rng):
            m = cls(**kw)
            m.fit(objarr(X))
            src = m
            if via_wrapper:
                w = Univariate()
                w._instance = m
                w.fitted = True
                src = w
            d1 = src.to_dict()
            m2 = Univariate.from_dict(copy.deepcopy(d1))
            d2 = m2.to_dict()
            m3 = cls.from_dict(copy.deepcopy(d2))
            d3 = m3.to_dict()
            st = (state_of(m), state_of(m2))
        return d1, d2, d3, type(m2), type(m3), st
    paths, ex, _ = explore(fn, max_paths=2000, tlimit=120)
    bad = []
    for p in paths:
        if p.status != 'ok':
            bad.append(f'{p.status}: {type(p.exc).__name__}: {str(p.exc)[:100]}')
            continue
        d1, d2, d3, t2, t3, st = p.value
        s = z3.Solver()
        s.set('timeout', 20000)
        s.add(*p.ctx.pc)
        if t2 is not cls or t3 is not cls:
            bad.append(f'round trip yields {t2.__name__}/{t3.__name__}, not {cls.__name__}')
        df = dict_diffs(d1, d2, s) + dict_diffs(d2, d3, s)
        if df:
            bad.append('to_dict not preserved: ' + '; '.join(df[:2]))
        sd = diff_state(_behavioural(st[0]), _behavioural(st[1]), s)
        if sd:
            bad.append('state read by pdf/cdf/ppf/sample differs: ' + '; '.join(sd[:2]))
    return bad, len(paths), ex


def _behavioural(st):
    """the part of the instance state the query methods read (constructor bookkeeping excluded)"""
    drop = {'__args__', '__kwargs__', 'random_state', '_sample_size', '_requested_sample_size', 'min', 'max', 'bw_method', 'weights'}
    return {k: v for k, v in st.items() if k not in drop}


# ---------------------------------------------------------------- bivariate

def biv_roundtrip():
    bad = []
    n = 0
    for cls in (Clayton, Frank, Gumbel):
        def fn(ctx, cls=cls):
            c = cls()
            c.theta, c.tau = sym('theta'), sym('tau')
            d1 = c.to_dict()
            c2 = Bivariate.from_dict(copy.deepcopy(d1))
            d2 = c2.to_dict()
            return d1, d2, type(c2), c2
        paths, ex, _ = explore(fn)
        n += len(paths)
        for p in paths:
            if p.status != 'ok':
                bad.append(f'{cls.__name__}: {type(p.exc).__name__}: {p.exc}')
                continue
            d1, d2, t2, c2 = p.value
            s = z3.Solver()
            if t2 is not cls or dict_diffs(d1, d2, s) or not (tz(c2.theta).eq(z3.Real('theta')) and tz(c2.tau).eq(z3.Real('tau'))):
                bad.append(f'{cls.__name__}: round trip changes class or parameters')
    return bad, n, True


# ---------------------------------------------------------------- Gaussian multivariate

def gm_roundtrip():
    cols = ['c', 'a', 'b']          # deliberately not in sorted order

    def fn(ctx):
        rng = RNGModel()
        df, M = gm.sym_corr(cols)
        with uni_patches(rng), gm.gm_patches(rng=rng):
            us = []
            g = GaussianUnivariate()
            g.fit(objarr([sym('x0'), sym('x1')]))
            k = GaussianKDE(bw_method=0.7)
            k.fit(objarr([sym('y0'), sym('y1')]))
            cst = GaussianUnivariate()
            cst.fit(objarr([sym('k'), sym('k')]))
            m = GaussianMultivariate()
            m.columns, m.univariates, m.correlation, m.fitted = list(cols), [g, k, cst], df, True
            d1 = m.to_dict()
            m2 = Multivariate.from_dict(copy.deepcopy(d1))
            d2 = m2.to_dict()
            m3 = GaussianMultivariate.from_dict(copy.deepcopy(d2))
            d3 = m3.to_dict()
        return d1, d2, d3, m2, m
    paths, ex, _ = explore(fn, max_paths=500, tlimit=120)
    bad = []
    for p in paths:
        if p.status != 'ok':
            bad.append(f'{p.status}: {type(p.exc).__name__}: {str(p.exc)[:120]}')
            continue
        d1, d2, d3, m2, m = p.value
        s = z3.Solver()
        s.set('timeout', 20000)
        s.add(*p.ctx.pc)
        if type(m2) is not GaussianMultivariate or not m2.fitted:
            bad.append('generic Multivariate.from_dict does not give a fitted GaussianMultivariate')
        df = dict_diffs(d1, d2, s) + dict_diffs(d2, d3, s)
        if df:
            bad.append('to_dict not preserved: ' + '; '.join(df[:2]))
        if [type(u) for u in m2.univariates] != [type(u) for u in m.univariates] or list(m2.columns) != list(m.columns):
            bad.append('marginal classes / column labels change')
        if list(m2.correlation.index) != list(m.columns) or list(m2.correlation.columns) != list(m.columns):
            bad.append('correlation labels change')
    return bad, len(paths), ex


# ---------------------------------------------------------------- vine

def vine_roundtrip(d, tree_type):
    from .c17 import build, patches, LBiv

    def fn(ctx):
        rng = RNGModel()
        p1, p2 = patches()
        rs = np.random.RandomState(d + len(tree_type))
        T = rs.uniform(-0.9, 0.9, size=(d, d))
        T = (T + T.T) / 2
        np.fill_diagonal(T, 1.0)
        with p1, p2, uni_patches(rng):
            v = build(ctx, d, tree_type, 2, concrete_tau=T)
            v.n_sample = 2
            unis = []
            for j in range(d):
                k = GaussianKDE()
                k.fit(objarr([sym(f'y{j}_0'), sym(f'y{j}_1')]))
                unis.append(k)
            v.unis = unis
            v.ppfs = [u.percent_point for u in unis]
            v.fitted = True
            d1 = v.to_dict()
            v2 = VineCopula.from_dict(copy.deepcopy(d1))
            d2 = v2.to_dict()
            v3 = Multivariate.from_dict(copy.deepcopy(d2))
            d3 = v3.to_dict()
            links = []
            for t_a, t_b in zip(v.trees, v2.trees):
                for e_a, e_b in zip(t_a.edges, t_b.edges):
                    links.append(((e_a.L, e_a.R, sorted(e_a.D), e_a.name, e_a.theta), (e_b.L, e_b.R, sorted(e_b.D), e_b.name, e_b.theta)))
                    pa = [(q.L, q.R, sorted(q.D)) for q in (e_a.parents or [])]
                    pb = [(q.L, q.R, sorted(q.D)) for q in (e_b.parents or [])]
                    links.append((pa, pb))
        return d1, d2, d3, v2, v3, links
    paths, ex, _ = explore(fn, max_paths=500, tlimit=200)
    bad = []
    for p in paths:
        if p.status != 'ok':
            bad.append(f'{p.status}: {type(p.exc).__name__}: {str(p.exc)[:120]}')
            continue
        d1, d2, d3, v2, v3, links = p.value
        s = z3.Solver()
        s.set('timeout', 20000)
        s.add(*p.ctx.pc)
        if type(v2) is not VineCopula or type(v3) is not VineCopula or not v2.fitted:
            bad.append('round trip does not give a fitted VineCopula')
        df = dict_diffs(d1, d2, s) + dict_diffs(d2, d3, s)
        if df:
            bad.append('to_dict not preserved: ' + '; '.join(df[:2]))
        if any(a != b for a, b in links):
            bad.append('edges / parent links differ after the round trip')
    return bad, len(paths), ex


# ---------------------------------------------------------------- concrete enumeration

def concrete_violation():
    try:
        return _concrete_violation()
    except Exception as e:      # the real code raising during a round trip is a reproduced failure
        import traceback
        tb = traceback.extract_tb(e.__traceback__)
        where = next((f'{f.filename.split("/")[-1]}:{f.lineno}' for f in reversed(tb) if '/copulas/' in f.filename), '')
        return True, f'a round trip raises {type(e).__name__}: {e} ({where})'


def _concrete_violation():
    warnings.simplefilter('ignore')
    rs = np.random.RandomState(0)
    x = rs.gamma(3.0, 1.5, 200) + 1
    pts = np.array([1.5, 3.0, 6.0])
    qs = np.array([0.1, 0.5, 0.9])
    for fam, (cls, kw) in FAMILIES.items():
        for data, tag in ((x, 'varying'), (np.full(25, 3.7), 'constant'), (np.full(9, -2.5), 'negative constant'), (np.zeros(7), 'zero constant'),
                          (5.0 + 1e-9 * rs.normal(size=40), 'varying on a 1e-9 scale')):
            m = cls(**kw)
            m.fit(data)
            d1 = m.to_dict()
            try:
                js = json.loads(json.dumps(d1))
            except TypeError as e:
                return True, f'{fam} ({tag}): to_dict() is not JSON-encodable: {e}'
            for src, how in ((d1, 'dict'), (js, 'JSON')):
                m2 = Univariate.from_dict(src)
                if type(m2) is not cls:
                    return True, f'{fam}: Univariate.from_dict gives {type(m2).__name__}'
                if json.dumps(m2.to_dict(), sort_keys=True) != json.dumps(d1, sort_keys=True):
                    return True, f'{fam} ({tag}, {how}): to_dict changes over the round trip'
                for meth, arg in (('cdf', pts), ('pdf', pts), ('percent_point', qs)):
                    a, b = np.asarray(getattr(m, meth)(arg), dtype=float), np.asarray(getattr(m2, meth)(arg), dtype=float)
                    if not np.array_equal(a, b, equal_nan=True):
                        return True, f'{fam} ({tag}, {how}): {meth} differs after the round trip: {a} vs {b}'
                m.set_random_state(4)
                m2.set_random_state(4)
                if not np.array_equal(np.asarray(m.sample(4), dtype=float), np.asarray(m2.sample(4), dtype=float)):
                    return True, f'{fam} ({tag}, {how}): sample stream differs after the round trip'
            buf = pickle.loads(pickle.dumps(m))
            if json.dumps(buf.to_dict(), sort_keys=True) != json.dumps(d1, sort_keys=True):
                return True, f'{fam}: pickle round trip changes to_dict'
    w = Univariate(candidates=[GaussianUnivariate, GaussianKDE])
    w.fit(x)
    w2 = Univariate.from_dict(w.to_dict())
    if type(w2) is not type(w._instance):
        return True, f'selecting wrapper reconstructs as {type(w2).__name__}, selected {type(w._instance).__name__}'
    for cls, th, ta in ((Clayton, 2.5, 0.4), (Frank, -3.0, -0.31), (Gumbel, 1.8, 0.44), (Frank, 4.0, 0.39)):
        c = cls()
        c.theta, c.tau = th, ta
        with tempfile.TemporaryDirectory(dir=os.environ.get('VERIF_WORK', None)) as td:
            pth = os.path.join(td, 'c.json')
            c.save(pth)
            c2 = Bivariate.load(pth)
        X = np.array([[0.2, 0.7], [0.5, 0.5]])
        if type(c2) is not cls or c2.to_dict() != c.to_dict() or not np.array_equal(c.cdf(X), c2.cdf(X)) or not np.array_equal(c.partial_derivative(X), c2.partial_derivative(X)):
            return True, f'{cls.__name__}: save/load changes the copula'
        c.set_random_state(3)
        c2.set_random_state(3)
        if not np.array_equal(c.sample(3), c2.sample(3)):
            return True, f'{cls.__name__}: sample stream differs after save/load'
    # edge parameters: a Clayton copula fitted on comonotone data has theta = inf
    ce = Clayton()
    ce.fit(np.column_stack((np.linspace(0.05, 0.95, 20), np.linspace(0.05, 0.95, 20))))
    with tempfile.TemporaryDirectory(dir=os.environ.get('VERIF_WORK', None)) as td:
        pth = os.path.join(td, 'e.json')
        ce.save(pth)
        ce2 = Bivariate.load(pth)
    if ce2.to_dict() != ce.to_dict() or type(ce2) is not Clayton:
        return True, f'Clayton with theta={ce.theta} (tau={ce.tau}): save/load gives {ce2.to_dict()}'
    ce3 = Bivariate.from_dict(json.loads(json.dumps(ce.to_dict())))
    if ce3.to_dict() != ce.to_dict():
        return True, f'Clayton with theta={ce.theta}: JSON round trip gives {ce3.to_dict()}'
    u = Clayton()
    u2 = Bivariate.from_dict(u.to_dict())
    if u2.theta is not None:
        return True, 'unfitted bivariate does not round-trip to an unfitted one'
    t = pd.DataFrame({'width': x, 'height': 0.5 * x + rs.normal(size=200), 'age': np.full(200, 2.0), 3: rs.normal(size=200) - 0.3 * x})
    g = GaussianMultivariate(distribution={'width': GaussianKDE, 'height': GaussianUnivariate})
    g.fit(t)
    d1 = g.to_dict()
    try:
        js = json.loads(json.dumps(d1))
    except TypeError as e:
        return True, f'GaussianMultivariate.to_dict() is not JSON-encodable: {e}'
    for src, how in ((d1, 'dict'), (js, 'JSON')):
        g2 = Multivariate.from_dict(src)
        if type(g2) is not GaussianMultivariate or json.dumps(g2.to_dict(), sort_keys=True) != json.dumps(d1, sort_keys=True):
            return True, f'GaussianMultivariate ({how}): to_dict changes over the round trip'
        if not np.array_equal(g.probability_density(t.iloc[:3]), g2.probability_density(t.iloc[:3])):
            return True, f'GaussianMultivariate ({how}): density differs after the round trip'
        g.set_random_state(9)
        g2.set_random_state(9)
        if not g.sample(3).equals(g2.sample(3)):
            return True, f'GaussianMultivariate ({how}): sample stream differs after the round trip'
    for vt in ('center', 'direct', 'regular'):
        v = VineCopula(vt)
        v2 = VineCopula.from_dict(v.to_dict())
        if v2.fitted or v2.to_dict() != v.to_dict():
            return True, f'unfitted {vt} vine does not round-trip'
        t4 = pd.DataFrame(rs.multivariate_normal(np.zeros(4), np.eye(4) * 0.5 + 0.5, size=120), columns=list('wxyz'))
        v.fit(t4)
        d1 = v.to_dict()
        v2 = VineCopula.from_dict(d1)
        d2 = v2.to_dict()
        if repr(_norm(d1)) != repr(_norm(d2)):
            return True, f'{vt} vine: to_dict changes over the round trip'
        u_ = np.array([[0.2, 0.4, 0.6, 0.7]])
        a, b = v.get_likelihood(u_), v2.get_likelihood(u_)
        if not (a == b or (a != a and b != b)):
            return True, f'{vt} vine: likelihood differs after the round trip ({a} vs {b})'
        v.set_random_state(2)
        v2.set_random_state(2)
        if not v.sample(2).equals(v2.sample(2)):
            return True, f'{vt} vine: sample stream differs after the round trip'
        vg = Multivariate.from_dict(d1)
        if type(vg) is not VineCopula or repr(_norm(vg.to_dict())) != repr(_norm(d1)):
            return True, f'{vt} vine: the generic Multivariate.from_dict does not rebuild the vine'
        v3 = pickle.loads(pickle.dumps(v))
        if repr(_norm(v3.to_dict())) != repr(_norm(d1)):
            return True, f'{vt} vine: pickle round trip changes to_dict'
    # the concrete classes' own from_dict / load, first thing in a fresh interpreter (class-level caches are empty)
    import subprocess
    import sys
    code = ("import json, os, tempfile\n"
            "from copulas.bivariate import Frank, Clayton, Gumbel\n"
            "for cls, th, tau in ((Frank, 2.0, 0.2), (Clayton, 1.5, 0.4), (Gumbel, 2.5, 0.6)):\n"
            "    m = cls(); m.theta, m.tau = th, tau\n"
            "    m2 = cls.from_dict(m.to_dict())\n"
            "    assert type(m2) is cls and m2.to_dict() == m.to_dict(), (cls.__name__, m2)\n"
            "    p = os.path.join(tempfile.mkdtemp(), 'c.json'); m.save(p)\n"
            "    m3 = cls.load(p)\n"
            "    assert type(m3) is cls and m3.to_dict() == m.to_dict(), (cls.__name__, m3)\n"
            "print('ok')\n")
    env = dict(os.environ, PYTHONPATH=os.pathsep.join(p_ for p_ in sys.path if p_))
    pr = subprocess.run([sys.executable, '-W', 'ignore', '-c', code], capture_output=True, text=True, env=env, timeout=120)
    if pr.returncode != 0 or 'ok' not in pr.stdout:
        return True, ('in a fresh interpreter <Family>.from_dict(to_dict(m)) / <Family>.load(save(m)) on the concrete bivariate class fails: '
                      + (pr.stderr.strip().splitlines() or ['?'])[-1][:200])
    return False, ''


def _norm(d):
    if isinstance(d, dict):
        return {str(k): _norm(v) for k, v in sorted(d.items(), key=lambda kv: str(kv[0]))}
    if isinstance(d, (list, tuple)):
        return [_norm(v) for v in d]
    if isinstance(d, (set, frozenset)):
        return sorted(_norm(v) for v in d)
    if isinstance(d, (float, np.floating)):
        return 'nan' if d != d else float(d)
    if isinstance(d, (np.integer,)):
        return int(d)
    return d


CASES = {}
for _f in FAMILIES:
    CASES[f'{_f}: to_dict/from_dict fixed point, class and query state preserved (varying data)'] = (uni_roundtrip, _f, False)
    CASES[f'{_f}: to_dict/from_dict fixed point, class and query state preserved (constant data)'] = (uni_roundtrip, _f, True)
CASES['selecting wrapper reconstructs as the selected family (GaussianKDE)'] = (uni_roundtrip, 'GaussianKDE', False, True)
CASES['selecting wrapper reconstructs as the selected family (BetaUnivariate, constant)'] = (uni_roundtrip, 'BetaUnivariate', True, True)
CASES['bivariate: Bivariate.from_dict(to_dict) preserves class, theta, tau'] = (biv_roundtrip,)
CASES['GaussianMultivariate: generic and class from_dict, mixed marginals incl. a constant column, non-string label'] = (gm_roundtrip,)
for _t in ('center', 'direct', 'regular'):
    CASES[f'{_t} vine d=4: to_dict fixed point, edges and parent links preserved'] = (vine_roundtrip, 4, _t)


def task(name):
    t0 = time.time()
    try:
        f = CASES[name]
        bad, n, ex = f[0](*f[1:])
        return {'name': name, 'bad': bad[:3], 'paths': n, 'exhaustive': ex, 'secs': time.time() - t0}
    except BaseException:
        import traceback
        return {'name': name, 'error': traceback.format_exc()[-1500:]}


def replay(d):
    bad, detail = concrete_violation()
    print(detail)
    return bad


def run(tier, seed):
    ck = Check('C14', tier, seed, 'model_checking',
               'symbolic execution of to_dict / from_dict on models fitted on symbolic data; z3 equality on every symbolic leaf; '
               'finite concrete enumeration for JSON/pickle encodability, dispatch and sample streams')
    from copulas.univariate.base import ScipyModel
    ck.encode(Univariate.to_dict, Univariate.from_dict, ScipyModel._get_params, ScipyModel._set_params, GaussianKDE._set_params,
              Bivariate.to_dict, Bivariate.from_dict, GaussianMultivariate.to_dict, GaussianMultivariate.from_dict, Multivariate.from_dict,
              VineCopula.to_dict, VineCopula.from_dict, VineCopula._deserialize_trees, TR.Tree.to_dict, TR.Tree.from_dict, TR.Edge.to_dict,
              TR.Edge.from_dict)
    ck.stubs = ['scipy estimators / gaussian_kde / pair copulas as in C19 and C17']
    ck.bounds = {'training data': '2-3 symbolic points per marginal (constant and varying)', 'vine': '4 columns, one structure per type',
                 'round trips': 'two consecutive (the dict is shown to be a fixed point, which covers any number)'}
    ck.outside = ["pickle's own fidelity", 'JSON for vines (their dicts hold sets; the property does not ask for it)']
    ck.assumptions = ['stub contracts']
    viol = False
    for r in pool_map(task, list(CASES)):
        if r.get('error'):
            ck.inconcl(f"{r['name']}: harness error {r['error']}")
            continue
        if not r['exhaustive']:
            ck.inconcl(f"{r['name']}: not exhaustive")
        ck.paths += r['paths']
        ck.states += r['paths']
        ck.transitions += r['paths']
        ck.ob(r['name'], 'unsat' if not r['bad'] else 'sat', r['secs'], queries=r['paths'])
        if r['bad'] and not viol:
            b, detail = concrete_violation()
            if b:
                ck.violation(r['name'].split(':')[0][:50], f"{r['name']}: {r['bad'][0]} -- {detail}", {})
                viol = True
            else:
                ck.inconcl(f"{r['name']}: {r['bad']}; not reproduced on the real code")
    b, detail = concrete_violation()
    ck.traces_validated = 1
    if b:
        ck.violation('conformance', detail, {})
    return ck.finish()
