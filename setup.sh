#!/bin/bash
# Build the overlay venv used by every check. Offline: wheels from /opt/veriftools/wheels only.
set -e
cd "$(dirname "$0")"
V=/verif/.venv
exec 9>/verif/.venv.lock
flock 9
if [ -x "$V/bin/python" ] && "$V/bin/python" -c "import z3, sympy, crosshair, numpy, copulas" 2>/dev/null; then
  exit 0
fi
rm -rf "$V"
/venv/bin/python -m venv "$V"
SP=$("$V/bin/python" -c "import sysconfig; print(sysconfig.get_paths()['purelib'])")
printf "import site; site.addsitedir('/venv/lib/python3.12/site-packages')\n" > "$SP/_overlay.pth"
PIP_NO_INDEX=1 "$V/bin/pip" install -q --no-index --find-links /opt/veriftools/wheels z3-solver sympy crosshair-tool cvc5 >/dev/null
"$V/bin/python" -c "import z3, sympy, crosshair, numpy, copulas; print('venv ok', z3.get_version_string())"
