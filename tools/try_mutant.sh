#!/bin/bash
# usage: tools/try_mutant.sh <patch.diff> <ID> [<ID>...]   -- applies patch to /repo, runs quick checks, reverts
P=$1; shift
cd /repo && git status --short | grep -q . && { echo "/repo dirty"; exit 9; }
git -C /repo apply "$P" || exit 9
for id in "$@"; do
  ( cd /verif && timeout 1500 ./vcheck $id --tier quick 2>&1 | grep -E "VIOLATION|INCONCLUSIVE|KNOWN|HOLDS|VIOLATED|^\[" | head -8; echo "rc=${PIPESTATUS[0]}" )
done
git -C /repo checkout -- . 
git -C /repo status --short | head -3
