#!/usr/bin/env python3
"""Regenerates /verif/MANIFEST.json from the table below (kept in one place so it stays valid)."""
import json
import os

ROOT = os.path.dirname(os.path.dirname(os.path.abspath(__file__)))
TRUST = 'Trusted: z3 5.1.0, numpy object-array dispatch, the symx value types and stubs listed in the evidence file. Exact real arithmetic, not float64.'

CHECKS = {
    'C06': ('proof', 'symbolic execution of the real code + SMT (z3, QF_NRA after exp/log elimination)',
            "Bounded proof over exact real arithmetic: every copula axiom of the property is a z3 'unsat' over all theta in the family range and all (u,v) in the open unit square, on the term obtained by executing the real method symbolically; boundary patterns and 2-row batches are enumerated exhaustively.",
            'Real arithmetic, not float64; rounding/overflow outside the claim. 2-increasingness via density>=0 + FTC.'),
    'C07': ('proof', 'symbolic execution of the real code + symbolic differentiation + SMT (z3)',
            "Bounded proof over exact real arithmetic: h = dC/dv, pdf = dh/du (own symbolic differentiator on the traced CDF term), ranges, symmetry and log-density are z3 'unsat' for all theta in range and all (u,v) in the open unit square; 2-row batches enumerated.",
            'Differentiator validated on the repository numeric vectors; rectangle-integral clause follows by FTC, not decided.'),
    'C08': ('proof', 'symbolic execution of the real percent_point + SMT; brentq as contract stub',
            "Clayton: h(ppf(y,v),v)=y, range and monotonicity are z3 'unsat' for all theta>0, y,v in (0,1). Frank/Gumbel: the function, bracket and lane alignment handed to brentq are decided symbolically, the bracket [EPSILON,1] is used only after the code's own sign test and the widened bracket [tiny,1] is shown to have a sign change for |tau|<=0.8, y,v in [1e-4,1-1e-4] by lemma chains; brentq itself is its documented contract (default tolerances, iteration budget and convergence check required). Independence family included.",
            'brentq convergence is outside the claim; the quantitative bracket bound holds inside the stated (theta, y, v) box only.'),
    'C09': ('model_checking', 'symbolic execution under a symbolic RNG model + SMT on every path',
            'All paths of the real sample(n), n<=2 (3 thorough): the exact transformation of the two uniform draws (guard, request order, lane alignment, range) is decided; statistical clauses are not claimed.',
            'RNG model and brentq contract are the trusted base; every distributional clause is outside the claim.'),
    'C10': ('model_checking', 'exhaustive symbolic path enumeration of the real fit + SMT per path',
            'Every feasible path of the real Bivariate.fit on symbolic (n,2) data, n<=3 (4 thorough), with kendalltau/least_squares/quad as contract stubs: acceptance, refusal reasons, tau wiring and the tau-theta relations are z3 queries on each path.',
            'scipy kendalltau/least_squares/quad are contracts; Frank root-finding accuracy outside the claim.'),
    'C18': ('model_checking', 'exhaustive symbolic path enumeration with maxiter=k + SMT per path',
            'Every feasible path of the real bisect/chandrupatla for symbolic brackets and an uninterpreted monotone f, lanes<=2, maxiter<=3: containment, the maintained bracket (result = smaller-|f| end of an adjacent sign-changing pair of evaluated points), halving / termination meaning, rejection of invalid brackets, lane non-interference and scalar/vector agreement are z3 queries on each path.',
            'f monotone between evaluated points; the interpolation parameter t is abstracted to its clamp range; convergence within 50 iterations for arbitrary f is outside the claim.'),
}

CHECKS.update({
    'C01': ('model_checking', 'symbolic execution of fit+sample with stub marginals, corr() contract and RNG model + SMT per path',
            'Every path of the real fit and sample on symbolic tables (d<=3 quick, 4 thorough) for class/name/instance/dict configurations: schema, the single multivariate_normal(0, fitted correlation) request, out = Q_j(Phi(Z_j)) aligned by column name, constant column exact, and the normal-score frame handed to corr() are decided; statistical clauses are not claimed.',
            'Marginals, Phi, pandas corr and the RNG are contract stubs; distributional fidelity follows by the PIT theorem, not decided.'),
    'C02': ('model_checking', "symbolic execution of _get_correlation with pandas corr()/np.linalg.cond as contract stubs + SMT per path",
            'Every path (all constant-column patterns, both conditioning branches) of the real _get_correlation for d<=3 (4 thorough): finiteness, symmetry, range, exact ridge, labels, PSD (principal minors) and the argument of corr() are z3 queries.',
            "pandas' Pearson is a contract; cond's numeric value arbitrary."),
    'C12': ('proof', 'symbolic execution of the conditional-Gaussian code on a symbolic PD matrix + SMT identities',
            'For every conditioning subset of d<=3 (4 thorough) columns and every positive-definite symbolic correlation: conditional mean/covariance satisfy the orthogonality-principle oracle (independent of the Schur formula), symmetry, PSD (<=2 free columns); sample(conditions) dataflow for dict and Series on a symbolic RNG.',
            'np.linalg.inv replaced by the adjugate formula; marginals/Phi uninterpreted; distribution of draws outside the claim.'),
    'C13': ('model_checking', 'symbolic execution of pdf/cdf for every container and column permutation + SMT',
            'All containers (DataFrame in every column permutation, Series, 1-D, 2-D arrays), d<=3: the array handed to scipy MVN is the clipped normal-score matrix in training order with the fitted correlation; log-density, row shape, unfitted error.',
            "scipy's MVN numerics are the trusted base."),
    'C20': ('model_checking', 'symbolic execution with argument snapshots on every path (symx) + CrossHair on column lists',
            'Every feasible path of the listed public entry points on symbolic 2-row inputs: each argument object is element-wise identical after the call; the frame handed to plotly holds every given row once with the right label/axes. CrossHair searches the column-list logic with symbolic lists.',
            'plotly rendering trusted; entry points listed in the evidence samples only.'),
})

CHECKS.update({
    'C15': ('model_checking', 'symbolic execution of the RNG scoping code on a symbolic generator-state model + SMT',
            'Every path of the real set_random_state/random_state/validate_random_state and of each sampler wrapper (scipy-backed, KDE, selecting wrapper, bivariate, Gaussian multivariate incl. conditional, vine, dataset generators) for <=3 calls over <=2 models: global state restored (also on raise), stream advance, twin equality, non-interference, unseeded behaviour, seed types.',
            'RNG model (state token, injective next-state, stream rank) is the trusted base; MT19937 bit-level behaviour outside the claim.'),
    'C16': ('model_checking', 'exhaustive symbolic path enumeration over tau order types + graph predicates + SMT',
            'Every feasible path (every order type of the pairwise taus, ties included) of the real vine construction for d<=4 (thorough: + d=5 center/direct, d=6 center/direct; regular d>=5 is not exhaustible), three vine types, all truncations: tree counts, spanning trees, proximity, conditioned/conditioning sets, no repeated pair, star/path shape, maximum-spanning-tree optimality of the first regular tree (z3 query per path), no exception.',
            'select_copula / kendalltau / h-functions are stubs; regular vines with d>=5 and d=7 are covered by concrete witness tables only.'),
    'C17': ('model_checking', 'symbolic execution with labelled stub pair copulas; textbook h-recursion as oracle',
            'All structures for d<=4: each edge copula = select_copula of F(a|D),F(b|D); attached pseudo-observations = [F(a|D+b), F(b|D+a)], moved strictly inside (0,1); get_likelihood = sum of log pair densities at the h-propagated arguments (truncation 1, d-1 and none) with no uninitialised reads; sample schema, per-column quantile wiring, only the pair copulas of the model itself are evaluated, 2-column conditional inverse at two different draws.',
            'Pair-copula numerics are C06-C08; the two-column distributional clause is statistical and not claimed.'),
})

CHECKS.update({
    'C19': ('model_checking', 'symbolic two-fit histories + havoc for np.empty + finite misuse enumeration, z3 for state equality',
            'For every univariate family (constructor variants included) and symbolic datasets A, B (constant and non-constant, |A|,|B|<=2; 3 thorough): the state after fit(A).fit(B) equals the state after fit(B) on every path; no decision or stored value of a fitted vine (d<=4) mentions np.empty contents; the finite list of unfitted-query / invalid-table / get_instance cases is enumerated on the real code.',
            'scipy estimators are deterministic uninterpreted functions of their arguments; histories of two fits.'),
})

CHECKS.update({
    'C05': ('model_checking', 'symbolic execution of select_univariate / fallback with stub candidates and symbolic KS statistics + SMT; CrossHair on the per-column lookup',
            'Every path of the real select_univariate for <=3 (4 thorough) stub candidates, every subset of them failing in fit, arbitrary KS statistics (ties included): a fittable candidate with minimal KS is returned as a fresh instance; filters enumerated exhaustively (12 combinations); fallback to a fitted Gaussian for RuntimeError/ValueError/Exception; per-column lookup by CrossHair with symbolic names plus enumerated shapes.',
            'scipy kstest is a contract (symbolic statistic).'),
})

CHECKS.update({
    'C03': ('proof', 'symbolic execution of degenerate models, scipy delegation and the KDE CDF/quantile code (Phi uninterpreted, monotone) + SMT',
            'For symbolic constants, query points, KDE data (<=3 points), weights and bandwidth: degenerate models are exact point masses after fit and after from_dict(to_dict()); scipy-backed families delegate to the right scipy function with the fitted parameters; the KDE CDF is non-decreasing, 0 at its lower bound, <= 1, with the weighted kernel density as derivative; the KDE quantile routes probabilities and solves cdf(x)-u=0 lane-aligned. Two open findings (KDE tails) are reported as KNOWN-FINDING.',
            "scipy distributions' own laws are trusted; limits at infinity not decided."),
    'C04': ('proof', "symbolic execution of every family's _fit with scipy estimators as uninterpreted functions + SMT",
            'For symbolic data (n<=4): Gaussian loc/scale are the sample mean and population standard deviation, Uniform loc/scale are minimum and range, TruncatedGaussian support/optimiser bounds/objective are the documented ones for default and user bounds, MLE families store the parameters fit() returned under the right names, the KDE is built from exactly the training data (or a resample of the requested size) with the requested bandwidth rule and weights.',
            'The DKW-closeness clause is statistical and not claimed.'),
})

CHECKS.update({
    'C11': ('model_checking', 'exhaustive symbolic path enumeration of select_copula with contract stubs + SMT per path',
            'Every feasible path of the real select_copula for 2 (3 thorough) symbolic rows and a reduced empirical grid: the result is a constructed Frank/Clayton/Gumbel candidate with the Kendall tau of X and that family\'s calibration, Frank for tau <= 0, refusing candidates skipped, no RNG or uninitialised-memory dependence; the deprecated class method agrees.',
            'The rank-sum scoring is abstracted (any candidate may win); the family-recovery clause is statistical and not claimed.'),
    'C14': ('model_checking', 'symbolic execution of to_dict/from_dict on models fitted on symbolic data + SMT leaf equality; finite enumeration for JSON/pickle/dispatch',
            'For every univariate family and constructor variant (varying and constant symbolic data), the selecting wrapper, the three bivariate families, a Gaussian multivariate with mixed marginals and 4-column vines of the three types: the dict is a fixed point of from_dict/to_dict, the class is preserved, the state read by the query methods is equal; JSON/pickle encodability, generic dispatch and equal sample streams are enumerated on the real code.',
            "pickle's own fidelity is trusted."),
})

NOT_APPLICABLE = {}


def main():
    props = [json.loads(l) for l in open(os.path.join(ROOT, 'properties.jsonl'))]
    ids = [p['id'] for p in props]
    checks = []
    for pid in ids:
        if pid not in CHECKS:
            continue
        level, tech, text, note = CHECKS[pid]
        checks.append({
            'property_id': pid,
            'quick_cmd': f'/verif/vcheck {pid} --tier quick',
            'thorough_cmd': f'/verif/vcheck {pid} --tier thorough',
            'evidence_file': f'/verif/evidence/{pid}.json',
            'replay_cmd_template': f'/verif/vcheck {pid} --replay {{path}}',
            'engine': 'symx',
            'level_claimed': {'category': level, 'text': text, 'design_ref': f'DESIGN.md section 4 {pid}'},
            'level_note': TRUST + ' ' + note,
            'technique': tech,
        })
    na = [{'property_id': pid, 'reason': NOT_APPLICABLE.get(pid, 'check not built yet in this session (solver-based harness pending)')}
          for pid in ids if pid not in CHECKS]
    m = {
        'version': 1,
        'setup_cmd': '/verif/setup.sh',
        'hooks': {
            'guard': 'SDV_DEV_COPULAS_VERIF',
            'enable': 'no source hooks: all instrumentation is namespace substitution from the harness side; vcheck exports SDV_DEV_COPULAS_VERIF=1 for uniformity',
            'baseline_off_cmd': 'cd /repo && /venv/bin/python -m pytest -ra -q -p no:cacheprovider --timeout=900 --continue-on-collection-errors',
            'source_commits': [],
            'add_only': True,
        },
        'engines': [{'name': 'symx', 'path': '/verif/symx', 'serves_properties': sorted(CHECKS),
                     'kind_free_text': "symbolic execution of the repository's real Python functions on numpy object arrays of z3-backed reals (fork by re-execution), library boundary as contract stubs, exp/log/pow eliminated by sound axiom instances, z3 5.1.0 decides each obligation"}],
        'checks': checks,
        'not_applicable': na,
        'notes': 'Exit codes: 0 holds within the stated bounds; 1 + VIOLATION line: replayed violation; 2 + INCONCLUSIVE: timeout/unknown/non-reproducing model (never reported as success). Known findings: /verif/known_findings.json.',
    }
    json.dump(m, open(os.path.join(ROOT, 'MANIFEST.json'), 'w'), indent=1)
    import jsonschema
    jsonschema.validate(m, json.load(open('/root/.vp/MANIFEST.schema.json')))
    print('MANIFEST ok:', len(checks), 'checks,', len(na), 'not yet claimed')


if __name__ == '__main__':
    main()
