#!/bin/bash
# usage: tools/confirm_seed.sh <seed dir> <pytest paths...>
# Confirms in a scratch worktree: demo passes without the patch, fails with it, and no baseline-passing test fails.
D=$(readlink -f $1); shift
W=/tmp/confirm_wt_$$
git -C /repo worktree add -q --detach $W HEAD || exit 9
cd $W
PYTHONPATH=$W /venv/bin/python $D/demo.py >/dev/null 2>&1; A=$?
git apply $D/patch.diff || { echo "patch does not apply"; cd /; git -C /repo worktree remove --force $W; exit 9; }
PYTHONPATH=$W /venv/bin/python $D/demo.py >/dev/null 2>&1; B=$?
PYTHONPATH=$W /venv/bin/python -m pytest -q -p no:cacheprovider --timeout=900 "$@" -q --junitxml=$W/j.xml >/dev/null 2>&1
/venv/bin/python - $W/j.xml <<'PY'
import sys, json, xml.etree.ElementTree as ET
base=set(json.load(open('/root/.vp/BASELINE.json'))['stable_pass'])
bad=[]; n=0
for tc in ET.parse(sys.argv[1]).getroot().iter('testcase'):
    name=f"{tc.get('classname')}::{tc.get('name')}"
    n+=1
    if (tc.find('failure') is not None or tc.find('error') is not None) and name in base:
        bad.append(name)
print('tests run', n, 'baseline-passing tests now failing:', bad)
PY
echo "demo without patch rc=$A ; with patch rc=$B"
cd /; git -C /repo worktree remove --force $W
