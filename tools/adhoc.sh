#!/bin/bash
# usage: tools/adhoc.sh <file in /repo> <python-regex-from> <to> <ID...>  : ad-hoc mutation sanity test
F=$1; A=$2; B=$3; shift 3
cd /repo && git status --short | grep -q . && { echo "/repo dirty"; exit 9; }
/venv/bin/python - "$F" "$A" "$B" <<'PY'
import sys,re
f,a,b=sys.argv[1:4]
s=open(f).read(); n=len(re.findall(a,s)); s2=re.sub(a,b,s,count=1)
print('matches',n); open(f,'w').write(s2)
PY
for id in "$@"; do ( cd /verif && timeout 1500 ./vcheck $id 2>&1 | grep -E "VIOLATION|INCONCLUSIVE|KNOWN|^\[" | cut -c1-220 | head -5 ); done
git -C /repo checkout -- .
