#!/bin/bash
# runs every thorough command once, with timing (used through `vp run --with-repo`)
cd "$(dirname "$0")/.."
for id in "$@"; do
  s=$(date +%s)
  VERIF_REPO=${VP_RUN_REPO:-} timeout 5400 /verif/vcheck $id --tier thorough > /tmp/thorough_$id.log 2>&1; rc=$?
  e=$(date +%s)
  echo "$id rc=$rc wall=$((e-s))s $(grep -E '^\[' /tmp/thorough_$id.log | tail -1)"
  grep -E "VIOLATION|INCONCLUSIVE" /tmp/thorough_$id.log | cut -c1-300 | head -5
done
