#!/bin/bash
# regenerate every evidence file with the quick tier on the current /repo tree; stops on the first non-zero exit
cd "$(dirname "$0")/.."
git -C /repo status --short | grep -q . && { echo "/repo has uncommitted changes"; exit 9; }
for id in C01 C02 C03 C04 C05 C06 C07 C08 C09 C10 C11 C12 C13 C14 C15 C16 C17 C18 C19 C20; do
  s=$(date +%s); VERIF_SEED=${VERIF_SEED:-0} ./vcheck $id --tier quick > /tmp/regen_$id.log 2>&1; rc=$?; e=$(date +%s)
  echo "$id rc=$rc $((e-s))s $(grep -E '^\[' /tmp/regen_$id.log | tail -1 | cut -c1-120)"
  [ $rc -ne 0 ] && { grep -E "VIOLATION|INCONCLUSIVE" /tmp/regen_$id.log | head -3; }
done
