"""Model of NumPy's legacy global random generator for symbolic execution.

The generator state is a symbolic integer token.  Every draw of total size n from state s
returns the values D(s, 0..n-1) (uninterpreted, so equal states give equal draws) and moves the
state to N(s, n); N is injective in s for fixed n and N(s, n) != s for n > 0 (asserted as
axiom instances on the states that occur).  RandomState(seed) starts in S(seed).
The real `set_random_state`, `random_state`, `validate_random_state` and each class's real
`sample` wrapper run on top of this model.
"""
import numpy as np
import z3

from .core import Ctx, SymReal, objarr, tz

I = z3.IntSort()
R = z3.RealSort()
N = z3.Function('rng_next', I, I, I)
D = z3.Function('rng_draw', I, I, R)
S = z3.Function('rng_seed', I, I)
RK = z3.Function('rng_rank', I, I)     # position in the stream: RK(N(s, n)) = RK(s) + n  (period ignored)


class _State:
    """a generator: holds a symbolic state token"""

    def __init__(self, model, token):
        self._m = model
        self.token = token

    def get_state(self, legacy=True):
        return ('MODEL', self.token)

    def set_state(self, st):
        if not (isinstance(st, tuple) and st and st[0] == 'MODEL'):
            raise TypeError('state must come from the RNG model')
        self.token = st[1]

    # -- draws
    def _draw(self, kind, n, params):
        n = int(n)
        t0 = self.token
        vals = [SymReal(D(t0, z3.IntVal(i))) for i in range(n)]
        self._m.requests.append({'kind': kind, 'n': n, 'state': t0, 'params': params, 'gen': self})
        if n > 0:
            t1 = N(t0, z3.IntVal(n))
            ctx = Ctx.cur
            if ctx is not None:
                ctx.assume(t1 != t0, RK(t1) == RK(t0) + n)
                for (a, na, ra) in self._m.next_instances:
                    if na == n:
                        ctx.assume(z3.Implies(ra == t1, a == t0))   # injectivity instances
                self._m.next_instances.append((t0, n, t1))
            self.token = t1
        return vals

    @staticmethod
    def _size(size):
        if size is None:
            return 1, None
        if isinstance(size, (int, np.integer)):
            return int(size), (int(size),)
        shp = tuple(int(s) for s in size)
        return int(np.prod(shp)) if shp else 1, shp

    def _shape(self, vals, shp):
        if shp is None:
            return vals[0]
        a = objarr(vals) if vals else np.empty(0, dtype=object)
        return a.reshape(shp)

    def uniform(self, low=0.0, high=1.0, size=None):
        n, shp = self._size(size)
        vals = self._draw('uniform', n, (low, high))
        out = []
        for v in vals:
            if Ctx.cur is not None:
                Ctx.cur.assume(v.t >= 0, v.t < 1)
            out.append(low + (high - low) * v)
        return self._shape(out, shp)

    def random(self, size=None):
        return self.uniform(0.0, 1.0, size)

    random_sample = random
    rand = lambda self, *shape: self.uniform(0.0, 1.0, shape or None)  # noqa

    def normal(self, loc=0.0, scale=1.0, size=None):
        n, shp = self._size(size)
        vals = self._draw('normal', n, (loc, scale))
        if isinstance(loc, np.ndarray) or isinstance(scale, np.ndarray):
            return loc + scale * self._shape(vals, shp)
        return self._shape([loc + scale * v for v in vals], shp)

    def standard_normal(self, size=None):
        return self.normal(0.0, 1.0, size)

    def exponential(self, scale=1.0, size=None):
        n, shp = self._size(size)
        vals = self._draw('exponential', n, (scale,))
        for v in vals:
            if Ctx.cur is not None:
                Ctx.cur.assume(v.t >= 0)
        return self._shape([scale * v for v in vals], shp)

    def randint(self, low, high=None, size=None, dtype=int):
        n, shp = self._size(size)
        vals = self._draw('randint', n, (low, high))
        if high is None:
            low, high = 0, low
        out = []
        for v in vals:
            if Ctx.cur is not None:
                Ctx.cur.assume(v.t >= low, v.t <= high - 1)
            if shp is None and isinstance(low, (int, np.integer)) and isinstance(high, (int, np.integer)) and high - low <= 8:
                # a scalar integer draw used as an index: fork on its value (tied to the state by D)
                got = None
                for k in range(int(low), int(high)):
                    if k == high - 1 or bool(v == k):
                        got = k
                        Ctx.cur.assume(v.t == k)
                        break
                out.append(got)
            else:
                out.append(v)
        return self._shape(out, shp)

    def choice(self, a, size=None, replace=True, p=None):
        n, shp = self._size(size)
        vals = self._draw('choice', n, (len(a),))
        return self._shape(vals, shp)

    def multivariate_normal(self, mean, cov, size=None, **kw):
        d = len(mean)
        n, shp = self._size(size)
        vals = self._draw('multivariate_normal', n * d, (mean, cov))
        a = objarr(vals).reshape((n, d)) if vals else np.empty((0, d), dtype=object)
        if shp is None:
            return a[0]
        return a.reshape(tuple(shp) + (d,))

    def seed(self, seed=None):
        self.token = self._m.seed_token(seed)


class RNGModel:
    """stands in for `np.random` in the namespace of a module under analysis"""

    def __init__(self, name='g0'):
        self.requests = []
        self.next_instances = []
        self.glob = _State(self, z3.Int(name))
        self.nfresh = 0
        model = self

        class RandomState(_State):
            def __init__(self, seed=None):
                _State.__init__(self, model, model.seed_token(seed))

        self.RandomState = RandomState
        # np.random.mtrand._rand is the singleton behind the module-level functions
        import types
        self.mtrand = types.SimpleNamespace(_rand=self.glob, RandomState=RandomState)

    def seed_token(self, seed):
        if seed is None:
            self.nfresh += 1
            return z3.Int(f'entropy#{self.nfresh}')
        if isinstance(seed, (int, np.integer)):
            return S(z3.IntVal(int(seed)))
        if z3.is_expr(seed):
            return S(seed)
        raise TypeError('seed')

    # module-level functions act on the global generator
    def get_state(self, legacy=True):
        return self.glob.get_state()

    def set_state(self, st):
        self.glob.set_state(st)

    def seed(self, seed=None):
        self.glob.seed(seed)

    def __getattr__(self, k):
        if k.startswith('_'):
            raise AttributeError(k)
        return getattr(self.glob, k)
