"""Evidence, verdict and known-finding plumbing shared by all checks."""
import hashlib
import inspect
import json
import os
import sys
import time

ROOT = os.path.dirname(os.path.dirname(os.path.abspath(__file__)))
REPO = os.environ.get('VERIF_REPO', '/repo')


def src_hash(fn):
    try:
        return hashlib.sha256(inspect.getsource(fn).encode()).hexdigest()[:12]
    except Exception:
        return 'nosrc'


def qual(fn):
    fn = getattr(fn, '__wrapped__', fn)
    return f'{fn.__module__}.{fn.__qualname__}'


class Check:
    def __init__(self, pid, tier, seed, level, technique):
        self.pid = pid
        self.tier = tier
        self.seed = seed
        self.level = level
        self.technique = technique
        self.t0 = time.time()
        self.obligations = []      # dict(name,status,secs,...)
        self.paths = 0
        self.states = 0
        self.transitions = 0
        self.queries = 0
        self.solver_s = 0.0
        self.traces_validated = 0
        self.samples = []
        self.functions = {}
        self.stubs = []
        self.bounds = {}
        self.assumptions = []
        self.outside = []
        self.violations = []       # (key, what, replay_path)
        self.known_hits = []
        self.inconclusive = []
        self.notes = []
        self.exhaustive = True
        kf = os.path.join(ROOT, 'known_findings.json')
        self.known = []
        if os.path.exists(kf):
            self.known = [e for e in json.load(open(kf)).get('findings', []) if e.get('property') == pid
                          and e.get('status', 'open') == 'open']

    # ---- bookkeeping
    def encode(self, *fns):
        for f in fns:
            self.functions[qual(f)] = src_hash(getattr(f, '__wrapped__', f))

    def ob(self, name, status, secs=0.0, **extra):
        d = {'name': name, 'status': status, 'secs': round(secs, 3)}
        d.update(extra)
        self.obligations.append(d)
        self.queries += extra.get('queries', 1)
        self.solver_s += secs
        if len(self.samples) < 12:
            self.samples.append({k: v for k, v in d.items() if k in ('name', 'status', 'secs', 'encoding', 'paths')})
        return d

    def sample(self, s):
        if len(self.samples) < 16:
            self.samples.append(s)

    def inconcl(self, what):
        self.inconclusive.append(what)
        print(f'INCONCLUSIVE property={self.pid} {what}', flush=True)

    def violation(self, key, what, replay):
        """a *replayed* violation.  key identifies the failing site/input class."""
        for e in self.known:
            if e.get('key') == key:
                if key not in self.known_hits:
                    self.known_hits.append(key)
                    print(f'KNOWN-FINDING: property={self.pid} {e.get("what", what)}', flush=True)
                return False
        if any(v[0] == key for v in self.violations):
            return True
        path = self.write_replay(key, replay)
        self.violations.append((key, what, path))
        print(f'VIOLATION property={self.pid} replay={path}', flush=True)
        print(f'  {key}: {what}', flush=True)
        return True

    def write_replay(self, key, replay):
        d = os.path.join(ROOT, 'replays')
        os.makedirs(d, exist_ok=True)
        safe = ''.join(c if c.isalnum() or c in '-_.' else '_' for c in key)[:80]
        path = os.path.join(d, f'{self.pid}-{safe}.json')
        replay = dict(replay)
        replay['property'] = self.pid
        replay['key'] = key
        with open(path, 'w') as f:
            json.dump(replay, f, indent=1, default=str)
        return path

    # ---- finishing
    def finish(self):
        wall = time.time() - self.t0
        nob = len(self.obligations)
        ndis = sum(1 for o in self.obligations if o['status'] in ('unsat', 'holds'))
        cov = {
            'functions_encoded': self.functions,
            'stubs': self.stubs,
            'bounds': self.bounds,
            'outside_claim': self.outside,
            'solver_queries': self.queries,
            'solver_seconds': round(self.solver_s, 2),
            'samples': self.samples or [{'note': 'no obligations ran'}],
            'exhaustive': bool(self.exhaustive and not self.inconclusive),
            'traces_validated_against_impl': self.traces_validated,
            'known_findings_reported': self.known_hits,
            'inconclusive': self.inconclusive,
            'notes': self.notes,
            'technique': self.technique,
        }
        if self.level == 'proof':
            cov.update({'obligations': nob, 'discharged': ndis,
                        'checker_cmd': f'/verif/vcheck {self.pid} --tier {self.tier}',
                        'trusted_base': ['z3 5.1.0 (QF_NRA/QF_UFNRA)', 'numpy object-array semantics',
                                         'symx value types', 'sound exp/log axiom instances'] + self.stubs})
        else:
            cov.update({'states': max(self.states, 1), 'transitions': max(self.transitions, 1),
                        'obligations': nob, 'discharged': ndis, 'paths': self.paths})
        ev = {
            'property_id': self.pid,
            'tier': self.tier,
            'seed': int(self.seed),
            'level': self.level,
            'coverage': cov,
            'assumptions': self.assumptions,
            'wall_s': round(wall, 2),
            'violations': len(self.violations),
        }
        os.makedirs(os.path.join(ROOT, 'evidence'), exist_ok=True)
        with open(os.path.join(ROOT, 'evidence', f'{self.pid}.json'), 'w') as f:
            json.dump(ev, f, indent=1, default=str)
        if ndis < nob and not self.violations and not self.inconclusive:
            # safety net: an obligation that is not discharged and not explained is never a pass
            left = [o['name'] for o in self.obligations if o['status'] not in ('unsat', 'holds')]
            covered = bool(self.known_hits)
            if not covered:
                self.inconcl(f'{nob - ndis} obligation(s) neither discharged nor explained: {left[:3]}')
        st = 'VIOLATED' if self.violations else ('INCONCLUSIVE' if self.inconclusive else 'HOLDS')
        print(f'[{self.pid}] {st}: {ndis}/{nob} obligations discharged, {self.paths} paths, '
              f'{self.queries} solver queries, {self.solver_s:.1f}s solver, {wall:.1f}s wall', flush=True)
        if self.violations:
            return 1
        if self.inconclusive:
            return 2
        return 0
