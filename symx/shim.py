"""Module-namespace shims: replace free global names (np, stats, ...) of the module under
analysis for the duration of one exploration.  /repo sources are never edited."""
import contextlib
import math
import types

import numpy as np
import z3

from .core import Ctx, SymBool, SymReal, NeedsConcrete, is_special, tz, objarr, RV, sbool


def is_obj(a):
    return isinstance(a, np.ndarray) and a.dtype == object


def has_sym(a):
    if isinstance(a, (SymReal, SymBool)):
        return True
    if isinstance(a, np.ndarray):
        if a.dtype != object:
            return False
        return any(isinstance(x, (SymReal, SymBool)) for x in a.flat)
    if isinstance(a, (list, tuple)):
        return any(has_sym(x) for x in a)
    if hasattr(a, 'to_numpy') and hasattr(a, 'dtypes' if hasattr(a, 'columns') else 'dtype'):
        try:
            return has_sym(a.to_numpy())
        except Exception:
            return False
    return False


def _elementwise(f, *arrs):
    arrs = [a if isinstance(a, np.ndarray) else np.asarray(a, dtype=object) for a in arrs]
    b = np.broadcast(*arrs)
    out = np.empty(b.shape, dtype=object)
    out.flat = [f(*xs) for xs in b]
    if out.shape == ():
        return out.item()
    return out


def ite(c, a, b):
    """merge instead of fork"""
    if isinstance(c, (bool, np.bool_)):
        return a if c else b
    if is_special(a) or is_special(b):
        return a if bool(c) else b
    if isinstance(a, (SymBool, bool, np.bool_)) and isinstance(b, (SymBool, bool, np.bool_)):
        return SymBool(z3.If(c.t, sbool(a), sbool(b)))
    return SymReal(z3.If(c.t, tz(a), tz(b)))


def s_abs(x):
    return abs(x)


def s_sign(x):
    if isinstance(x, SymReal):
        return SymReal(z3.If(x.t > 0, z3.RealVal(1), z3.If(x.t < 0, z3.RealVal(-1), z3.RealVal(0))))
    return np.sign(x)


def s_min(a, b):
    if is_special(a) or is_special(b) or not (isinstance(a, SymReal) or isinstance(b, SymReal)):
        if isinstance(a, SymReal) or isinstance(b, SymReal):
            return a if bool(a <= b) else b
        return min(a, b) if not (is_special(a) and math.isnan(a)) else a
    return ite(a <= b, a, b)


def s_max(a, b):
    if is_special(a) or is_special(b) or not (isinstance(a, SymReal) or isinstance(b, SymReal)):
        if isinstance(a, SymReal) or isinstance(b, SymReal):
            return a if bool(a >= b) else b
        return max(a, b) if not (is_special(a) and math.isnan(a)) else a
    return ite(a >= b, a, b)


def s_log(x):
    if isinstance(x, SymReal):
        c = z3.simplify(x.t)
        if z3.is_rational_value(c):
            v = c.numerator_as_long() / c.denominator_as_long()
            if v == 0:
                return float('-inf')
            if v < 0:
                return float('nan')
        return x.log()
    with np.errstate(all='ignore'):
        return float(np.log(float(x)))


def s_exp(x):
    if isinstance(x, SymReal):
        return x.exp()
    with np.errstate(all='ignore'):
        return float(np.exp(float(x)))


def s_pow(b, e):
    if isinstance(b, (SymReal,)) or isinstance(e, (SymReal,)):
        return b ** e
    with np.errstate(all='ignore'):
        return float(np.power(float(b), float(e)))


class Havoc:
    """bookkeeping for np.empty contents"""
    names = set()
    n = 0

    @classmethod
    def reset(cls):
        cls.names = set()
        cls.n = 0

    @classmethod
    def new(cls):
        cls.n += 1
        nm = f'havoc#{cls.n}'
        cls.names.add(nm)
        return SymReal(z3.Real(nm))


def uses_havoc(term):
    """does z3 term mention a havoc symbol?"""
    seen = set()
    stack = [term]
    while stack:
        t = stack.pop()
        if t.get_id() in seen:
            continue
        seen.add(t.get_id())
        if z3.is_const(t) and t.decl().kind() == z3.Z3_OP_UNINTERPRETED:
            if t.decl().name().startswith('havoc#'):
                return True
        stack.extend(t.children())
    return False


class LinalgShim:
    def __init__(self, owner):
        self._owner = owner

    def __getattr__(self, k):
        return getattr(np.linalg, k)

    def inv(self, M):
        M = np.asarray(M)
        if M.dtype != object:
            return np.linalg.inv(M)
        n = M.shape[0]
        if n == 1:
            return objarr([[1 / M[0, 0]]])
        det = _det(M)
        adj = np.empty((n, n), dtype=object)
        for i in range(n):
            for j in range(n):
                minor = np.delete(np.delete(M, j, 0), i, 1)
                adj[i, j] = ((-1) ** (i + j)) * _det(minor)
        return adj / det

    def cond(self, M, *a, **k):
        M = np.asarray(M)
        if M.dtype != object and not self._owner.force_sym_cond:
            return np.linalg.cond(M, *a, **k)
        # a deterministic function of the matrix: the same entries give the same (arbitrary) value
        memo = Ctx.cur.notes.setdefault('cond_memo', {})
        key = '|'.join(z3.simplify(tz(x)).sexpr() if isinstance(x, (SymReal,)) else repr(x) for x in M.flat)
        Ctx.cur.log.append(('cond', M))
        if key not in memo:
            c = Ctx.cur.fresh('cond')
            Ctx.cur.assume(c.t >= 1)
            memo[key] = c
        return memo[key]


def _det(M):
    n = M.shape[0]
    if n == 0:
        return 1
    if n == 1:
        return M[0, 0]
    if n == 2:
        return M[0, 0] * M[1, 1] - M[0, 1] * M[1, 0]
    tot = 0
    for j in range(n):
        minor = np.delete(np.delete(M, 0, 0), j, 1)
        tot = tot + ((-1) ** j) * M[0, j] * _det(minor)
    return tot


det = _det


class NPShim:
    """stands in for the name `np` inside one module of /repo"""

    def __init__(self, havoc_empty=True, random=None, force_obj=False):
        self.linalg = LinalgShim(self)
        self.force_sym_cond = False
        self.havoc_empty = havoc_empty
        self.force_obj = force_obj      # zeros/ones/full return object arrays
        if random is not None:
            self.random = random

    def __getattr__(self, k):
        return getattr(np, k)

    # ---- constructors
    def empty(self, shape, *a, **k):
        if not self.havoc_empty:
            return np.empty(shape, *a, **k)
        arr = np.empty(shape, dtype=object)
        for idx in np.ndindex(*arr.shape):
            arr[idx] = Havoc.new()
        return arr

    def _ctor(self, f, shape, *a, **k):
        r = f(shape, *a, **k)
        if self.force_obj and r.dtype != bool:
            return r.astype(object)
        return r

    def zeros(self, shape, *a, **k):
        return self._ctor(np.zeros, shape, *a, **k)

    def ones(self, shape, *a, **k):
        return self._ctor(np.ones, shape, *a, **k)

    def full(self, shape, fill, *a, **k):
        if isinstance(fill, (SymReal, SymBool)) or self.force_obj:
            arr = np.empty(shape, dtype=object)
            for idx in np.ndindex(*arr.shape):
                arr[idx] = fill
            return arr
        if isinstance(fill, np.ndarray) and fill.dtype == object:
            arr = np.empty(shape, dtype=object)
            arr[...] = fill
            return arr
        return np.full(shape, fill, *a, **k)

    def array(self, x, *a, **k):
        # symbolic reals model float64 values: an explicit float dtype keeps the symbolic entries
        if has_sym(x) and not a and k.get('dtype') in (float, np.float64, 'float', 'float64', 'f8', 'd', object):
            k = {kk: vv for kk, vv in k.items() if kk != 'dtype'}
        if has_sym(x) and 'dtype' not in k and not a:
            if isinstance(x, np.ndarray):
                return x.copy()
            if isinstance(x, (SymReal, SymBool)):
                r = np.empty((), dtype=object)
                r[()] = x
                return r
            try:
                return objarr_nd(x)
            except Exception:
                pass
        return np.array(x, *a, **k)

    def asarray(self, x, *a, **k):
        if isinstance(x, np.ndarray):
            return x
        return self.array(x, *a, **k)

    def identity(self, n, *a, **k):
        return np.identity(n, *a, **k)

    def fromiter(self, it, dtype=None, **k):
        vals = list(it)
        if has_sym(vals):
            return objarr(vals)
        return np.fromiter(vals, dtype, **k)

    # ---- predicates / special values
    def isnan(self, a):
        if isinstance(a, (SymReal, SymBool)):
            return False
        a = np.asarray(a)
        if a.dtype != object:
            return np.isnan(a)
        out = np.zeros(a.shape, dtype=bool)
        for idx in np.ndindex(*a.shape):
            x = a[idx]
            out[idx] = isinstance(x, (float, np.floating)) and math.isnan(x)
        if out.shape == ():
            return bool(out)
        return out

    def isinf(self, a):
        if isinstance(a, (SymReal, SymBool)):
            return False
        a = np.asarray(a)
        if a.dtype != object:
            return np.isinf(a)
        out = np.zeros(a.shape, dtype=bool)
        for idx in np.ndindex(*a.shape):
            x = a[idx]
            out[idx] = isinstance(x, (float, np.floating)) and math.isinf(x)
        return out

    def isfinite(self, a):
        return ~(self.isnan(a) | self.isinf(a))

    def nan_to_num(self, a, copy=True, nan=0.0, posinf=None, neginf=None):
        a = np.asarray(a)
        if a.dtype != object:
            return np.nan_to_num(a, copy=copy, nan=nan, posinf=posinf, neginf=neginf)
        out = a.copy() if copy else a
        if not copy and not a.flags.writeable:
            raise ValueError('assignment destination is read-only')
        for idx in np.ndindex(*a.shape):
            x = a[idx]
            if isinstance(x, (float, np.floating)):
                if math.isnan(x):
                    out[idx] = nan
                elif math.isinf(x):
                    out[idx] = (np.finfo(float).max if posinf is None else posinf) if x > 0 else \
                        (np.finfo(float).min if neginf is None else neginf)
        return out

    # ---- merged element-wise operations
    def sign(self, a):
        if has_sym(a):
            return _elementwise(s_sign, a)
        return np.sign(a)

    def abs(self, a):
        if has_sym(a):
            return _elementwise(s_abs, a)
        return np.abs(a)

    absolute = abs

    def minimum(self, a, b):
        if has_sym(a) or has_sym(b):
            return _elementwise(s_min, a, b)
        return np.minimum(a, b)

    def maximum(self, a, b):
        if has_sym(a) or has_sym(b):
            return _elementwise(s_max, a, b)
        return np.maximum(a, b)

    def isclose(self, a, b, rtol=1e-05, atol=1e-08, equal_nan=False):
        # numpy's definition: |a - b| <= atol + rtol * |b|
        if has_sym(a) or has_sym(b):
            from .core import RV

            def one(x, y):
                return abs(x - y) <= SymReal(RV(atol)) + SymReal(RV(rtol)) * abs(y)
            return _elementwise(one, a, b)
        return np.isclose(a, b, rtol=rtol, atol=atol, equal_nan=equal_nan)

    def allclose(self, a, b, rtol=1e-05, atol=1e-08, equal_nan=False):
        if has_sym(a) or has_sym(b):
            return self.all(self.isclose(a, b, rtol=rtol, atol=atol))
        return np.allclose(a, b, rtol=rtol, atol=atol, equal_nan=equal_nan)

    def clip(self, a, lo, hi, **k):
        if has_sym(a) or has_sym(lo) or has_sym(hi):
            return _elementwise(lambda x, l, h: s_min(s_max(x, l), h), a, lo, hi)
        return np.clip(a, lo, hi, **k)

    def where(self, c, *ab):
        if not ab:
            if has_sym(c):
                c = np.array([bool(x) for x in np.asarray(c, dtype=object).flat]).reshape(np.shape(c))
            return np.where(c)
        a, b = ab
        if has_sym(c):
            return _elementwise(ite, c, a, b)
        return np.where(c, a, b)

    def choose(self, c, choices, **k):
        if has_sym(c):
            a0, a1 = choices
            return _elementwise(lambda cc, x, y: ite(cc, y, x) if isinstance(cc, SymBool) else (y if cc else x), c, a0, a1)
        if any(has_sym(x) for x in choices):
            a0, a1 = choices
            return _elementwise(lambda cc, x, y: y if cc else x, c, a0, a1)
        return np.choose(c, choices, **k)

    def logical_or(self, a, b):
        if has_sym(a) or has_sym(b):
            return _elementwise(lambda x, y: _bor(x, y), a, b)
        return np.logical_or(a, b)

    def logical_and(self, a, b):
        if has_sym(a) or has_sym(b):
            return _elementwise(lambda x, y: _band(x, y), a, b)
        return np.logical_and(a, b)

    def logical_not(self, a):
        if has_sym(a):
            return _elementwise(lambda x: ~x if isinstance(x, SymBool) else (not x), a)
        return np.logical_not(a)

    def all(self, a, *args, **k):
        if has_sym(a) and not args and not k:
            a = np.asarray(a, dtype=object)
            r = True
            for x in a.flat:
                r = _band(r, x)
            return r
        return np.all(a, *args, **k)

    def any(self, a, *args, **k):
        if has_sym(a) and not args and not k:
            a = np.asarray(a, dtype=object)
            r = False
            for x in a.flat:
                r = _bor(r, x)
            return r
        return np.any(a, *args, **k)

    # ---- transcendental ufuncs on mixed object arrays
    def exp(self, a):
        if has_sym(a) or is_obj(a):
            return _elementwise(s_exp, a)
        return np.exp(a)

    def log(self, a):
        if has_sym(a) or is_obj(a):
            return _elementwise(s_log, a)
        return np.log(a)

    def expm1(self, a):
        if has_sym(a) or is_obj(a):
            return _elementwise(lambda x: s_exp(x) - 1, a)
        return np.expm1(a)

    def log1p(self, a):
        if has_sym(a) or is_obj(a):
            return _elementwise(lambda x: s_log(x + 1), a)
        return np.log1p(a)

    def logaddexp(self, a, b):
        if has_sym(a) or has_sym(b) or is_obj(a) or is_obj(b):
            return _elementwise(lambda x, y: s_log(s_exp(x) + s_exp(y)), a, b)
        return np.logaddexp(a, b)

    def power(self, a, b):
        if has_sym(a) or has_sym(b) or is_obj(a) or is_obj(b):
            return _elementwise(s_pow, a, b)
        return np.power(a, b)

    # ---- reductions
    def std(self, a, *args, **k):
        a_ = np.asarray(a)
        if a_.dtype != object or not has_sym(a_):
            return np.std(a, *args, **k)
        ddof = k.get('ddof', 0)
        v = self.var(a_, ddof=ddof)
        return _root_of(tz(v), 'std')

    def var(self, a, ddof=0, **k):
        a_ = np.asarray(a)
        if a_.dtype != object:
            return np.var(a, ddof=ddof, **k)
        flat = list(a_.flat)
        n = len(flat)
        m = sum(flat[1:], flat[0]) / n
        return sum(((x - m) * (x - m) for x in flat[1:]), (flat[0] - m) * (flat[0] - m)) / (n - ddof)

    def mean(self, a, *args, **k):
        if has_sym(a) and not args and not k:
            flat = list(np.asarray(a, dtype=object).flat)
            return sum(flat[1:], flat[0]) / len(flat)
        return np.mean(a, *args, **k)

    def sum(self, a, *args, **k):
        if has_sym(a) and not args and not k:
            flat = list(np.asarray(a, dtype=object).flat)
            return sum(flat[1:], flat[0]) if flat else 0.0
        return np.sum(a, *args, **k)

    def sqrt(self, a):
        if isinstance(a, SymReal):
            Ctx.cur.defined.append(('sqrt', a.t >= 0))
            return _root_of(a.t, 'sqrt')
        if has_sym(a):
            return _elementwise(lambda x: self.sqrt(x) if isinstance(x, SymReal) else np.sqrt(x), a)
        return np.sqrt(a)

    def min(self, a, *args, **k):
        if has_sym(a) and not args and not k:
            flat = list(np.asarray(a, dtype=object).flat)
            r = flat[0]
            for x in flat[1:]:
                r = s_min(r, x)
            return r
        return np.min(a, *args, **k)

    def max(self, a, *args, **k):
        if has_sym(a) and not args and not k:
            flat = list(np.asarray(a, dtype=object).flat)
            r = flat[0]
            for x in flat[1:]:
                r = s_max(r, x)
            return r
        return np.max(a, *args, **k)

    amin = min
    amax = max

    def ptp(self, a, axis=None, **k):
        if has_sym(a) and not k:
            a_ = np.asarray(a, dtype=object)
            if axis is None:
                return self.max(a_) - self.min(a_)
            if a_.ndim == 2 and axis in (0, 1):
                lanes = a_.T if axis == 0 else a_
                out = np.empty(len(lanes), dtype=object)
                out[:] = [self.max(l_) - self.min(l_) for l_ in lanes]
                return out
        return np.ptp(a, axis=axis, **k)

    def argmax(self, a, *args, **k):
        if has_sym(a):
            flat = list(np.asarray(a, dtype=object).flat)
            best = 0
            for i in range(1, len(flat)):
                if flat[i] > flat[best]:
                    best = i
            return best
        return np.argmax(a, *args, **k)

    def unique(self, a, *args, **k):
        if has_sym(a) and not args and k == {'axis': 0} and np.ndim(a) == 2:
            # distinct rows, lexicographically sorted (equality / order by comparisons: forks)
            import functools
            rows = [list(r) for r in np.asarray(a, dtype=object)]
            out = []
            for r in rows:
                if not any(all(bool(x == y) for x, y in zip(r, q)) for q in out):
                    out.append(r)

            def cmp(p_, q_):
                for x, y in zip(p_, q_):
                    if x < y:
                        return -1
                    if x > y:
                        return 1
                return 0
            out.sort(key=functools.cmp_to_key(cmp))
            return objarr(out) if out else np.empty((0, np.shape(a)[1]), dtype=object)
        if has_sym(a) and not args and not k:
            flat = list(np.asarray(a, dtype=object).flat)
            out = []
            for x in flat:
                dup = False
                for y in out:
                    if x == y:
                        dup = True
                        break
                if not dup:
                    out.append(x)
            # sorted ascending (forks)
            import functools
            out.sort(key=functools.cmp_to_key(lambda p, q: -1 if p < q else 1))
            return objarr(out)
        return np.unique(a, *args, **k)

    def issubdtype(self, a, b):
        if a == object:
            # symbolic tables stand for float tables
            return b in (np.floating,)
        return np.issubdtype(a, b)


def _root_of(term, prefix):
    """the non-negative square root of `term` as a fresh symbol r (r >= 0, r*r == term); the same term
    always gets the same symbol on a path, so repeated evaluations are syntactically equal"""
    ctx = Ctx.cur
    memo = ctx.notes.setdefault('root_memo', {})
    key = z3.simplify(term).sexpr()
    if key not in memo:
        r = ctx.fresh(prefix)
        ctx.assume(r.t >= 0, r.t * r.t == term)
        memo[key] = r
    return memo[key]


def _bor(x, y):
    if isinstance(x, SymBool) or isinstance(y, SymBool):
        return SymBool(z3.simplify(z3.Or(sbool(x), sbool(y))))
    return bool(x) or bool(y)


def _band(x, y):
    if isinstance(x, SymBool) or isinstance(y, SymBool):
        return SymBool(z3.simplify(z3.And(sbool(x), sbool(y))))
    return bool(x) and bool(y)


def objarr_nd(x):
    """nested lists/tuples (rectangular) -> object ndarray"""
    def shape(v):
        if isinstance(v, (list, tuple)):
            return (len(v),) + (shape(v[0]) if len(v) else ())
        if isinstance(v, np.ndarray):
            return v.shape
        return ()
    sh = shape(x)
    a = np.empty(sh, dtype=object)
    for idx in np.ndindex(*sh):
        v = x
        for i in idx:
            v = v[i]
        a[idx] = v
    return a


@contextlib.contextmanager
def patched(module, **names):
    """temporarily replace free global names of `module`"""
    sentinel = object()
    old = {k: module.__dict__.get(k, sentinel) for k in names}
    try:
        for k, v in names.items():
            setattr(module, k, v)
        yield
    finally:
        for k, v in old.items():
            if v is sentinel:
                delattr(module, k)
            else:
                setattr(module, k, v)


@contextlib.contextmanager
def patched_many(*specs):
    """specs: (module, {name: obj})"""
    with contextlib.ExitStack() as st:
        for mod, names in specs:
            st.enter_context(patched(mod, **names))
        yield


def ns(**k):
    return types.SimpleNamespace(**k)
