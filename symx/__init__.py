from .core import *  # noqa
