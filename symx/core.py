"""symx core: symbolic reals/booleans that live inside numpy object arrays, and a
fork-by-re-execution path explorer.

The repository's real functions are *called* on these values.  A branch on a symbolic
condition asks the current path context which way to go; the explorer re-executes the
function once per feasible decision sequence.  Nothing in /repo is parsed or edited.
"""
import math
import time
from fractions import Fraction

import numpy as np
import z3

z3.set_param('timeout', 120000)     # safety net: no solver call without a time limit

EXP = z3.Function('exp', z3.RealSort(), z3.RealSort())
LOG = z3.Function('log', z3.RealSort(), z3.RealSort())
POW = z3.Function('pow', z3.RealSort(), z3.RealSort(), z3.RealSort())


class NeedsConcrete(BaseException):
    """A symbolic value reached a place that needs a machine number (float(), int(), C code).
    BaseException so that the repository's `except Exception` blocks cannot swallow it."""


class PathTimeout(BaseException):
    """raised by explore()'s watchdog inside a path that runs past the time limit"""


class PathAbort(BaseException):
    """Current path is infeasible / cut by an assumption."""


class PathLimit(BaseException):
    pass


def RV(x):
    """exact z3 rational for a python number"""
    if isinstance(x, (bool, np.bool_)):
        x = int(x)
    if isinstance(x, (int, np.integer)):
        return z3.RealVal(int(x))
    if isinstance(x, Fraction):
        return z3.RealVal(f'{x.numerator}/{x.denominator}')
    fr = Fraction(float(x))
    return z3.RealVal(f'{fr.numerator}/{fr.denominator}')


def is_special(o):
    return isinstance(o, (float, np.floating)) and (math.isinf(o) or math.isnan(o))


class Ctx:
    """One execution path."""
    cur = None
    branch_timeout_ms = 4000
    solver_factory = staticmethod(z3.Solver)

    def __init__(self, decisions=(), ieee_div=False):
        self.decisions = list(decisions)
        self.pos = 0
        self.pc = []
        self.pending = []
        self.solver = self.solver_factory()
        self.solver.set('timeout', self.branch_timeout_ms)
        self.ieee_div = ieee_div
        self.defined = []       # definedness side conditions (z3 Bool) collected on this path
        self.log = []           # stub call log
        self.nfresh = 0
        self.queries = 0
        self.solver_s = 0.0
        self.unknown_branches = 0
        self.notes = {}

    # -- fresh symbols
    def fresh(self, prefix='k'):
        self.nfresh += 1
        return SymReal(z3.Real(f'{prefix}#{self.nfresh}'))

    def assume(self, *conds):
        for c in conds:
            if isinstance(c, SymBool):
                c = c.t
            if isinstance(c, (bool, np.bool_)):
                if not c:
                    raise PathAbort()
                continue
            self.pc.append(c)
            self.solver.add(c)

    def _feasible(self, cond):
        t0 = time.time()
        self.solver.push()
        self.solver.add(cond)
        r = self.solver.check()
        self.solver.pop()
        self.queries += 1
        self.solver_s += time.time() - t0
        if r == z3.unknown:
            self.unknown_branches += 1
            return True
        return r == z3.sat

    relax = None     # optional predicate: conditions for which both branches are explored and
                     # nothing is recorded (sound weakening of the path condition)

    def branch(self, cond):
        cond = z3.simplify(cond)
        if z3.is_true(cond):
            return True
        if z3.is_false(cond):
            return False
        if Ctx.relax is not None and Ctx.relax(cond):
            memo = self.notes.setdefault('relax_memo', {})
            key = cond.sexpr()
            if key in memo:
                return memo[key]
            nkey = z3.simplify(z3.Not(cond)).sexpr()
            if nkey in memo:
                return not memo[nkey]
            d = self._relaxed_decision()
            memo[key] = d
            return d
        # a condition already decided on this path (same term) keeps its decision: no solver call
        dm = self.notes.setdefault('decided', {})
        ck = cond.get_id()
        if ck in dm:
            return dm[ck][0]
        if self.pos < len(self.decisions):
            d = self.decisions[self.pos]
        else:
            t = self._feasible(cond)
            f = self._feasible(z3.Not(cond))
            if t and f:
                d = True
                self.pending.append(self.decisions[:self.pos] + [False])
            elif t:
                d = True
            elif f:
                d = False
            else:
                raise PathAbort()
            self.decisions.append(d)
        self.pos += 1
        c = cond if d else z3.Not(cond)
        self.pc.append(c)
        self.solver.add(c)
        dm[ck] = (d, cond)      # keep the term alive so that its id stays unique
        return d

    def _relaxed_decision(self):
        if self.pos < len(self.decisions):
            d = self.decisions[self.pos]
        else:
            d = True
            self.pending.append(self.decisions[:self.pos] + [False])
            self.decisions.append(d)
        self.pos += 1
        self.notes['relaxed'] = self.notes.get('relaxed', 0) + 1
        return d

    def choose(self, n, label='choice'):
        """nondeterministic choice in range(n) (forks), for stubs"""
        for i in range(n - 1):
            b = z3.Bool(f'{label}#{self.nfresh}_{i}')
            self.nfresh += 1
            if self.branch(b):
                return i
        return n - 1


def tz(x):
    """python/numpy number or SymReal -> z3 real term (finite values only)"""
    if isinstance(x, SymReal):
        return x.t
    if isinstance(x, SymBool):
        return z3.If(x.t, z3.RealVal(1), z3.RealVal(0))
    if isinstance(x, (bool, np.bool_, int, np.integer, Fraction)):
        return RV(x)
    if isinstance(x, (float, np.floating)):
        if math.isinf(x) or math.isnan(x):
            raise NeedsConcrete(f'special value {x} in symbolic arithmetic')
        return RV(x)
    if isinstance(x, np.ndarray) and x.shape == ():
        return tz(x.item())
    if z3.is_expr(x):
        return x
    raise TypeError(type(x))


def _is_num(o):
    return isinstance(o, (bool, np.bool_, int, np.integer, float, np.floating, Fraction, SymReal, SymBool)) or (
        isinstance(o, np.ndarray) and o.shape == ())


class SymBool:

    def __init__(self, t):
        self.t = t

    def __bool__(self):
        return Ctx.cur.branch(self.t)

    @staticmethod
    def _c(o):
        if isinstance(o, SymBool):
            return o.t
        if isinstance(o, (bool, np.bool_)):
            return z3.BoolVal(bool(o))
        return None

    def __and__(self, o):
        c = self._c(o)
        return NotImplemented if c is None else SymBool(z3.And(self.t, c))

    __rand__ = __and__

    def __or__(self, o):
        c = self._c(o)
        return NotImplemented if c is None else SymBool(z3.Or(self.t, c))

    __ror__ = __or__

    def __xor__(self, o):
        c = self._c(o)
        return NotImplemented if c is None else SymBool(z3.Xor(self.t, c))

    __rxor__ = __xor__

    def __eq__(self, o):
        c = self._c(o)
        return NotImplemented if c is None else SymBool(self.t == c)

    def __ne__(self, o):
        c = self._c(o)
        return NotImplemented if c is None else SymBool(z3.Xor(self.t, c))

    __hash__ = object.__hash__

    def __invert__(self):
        return SymBool(z3.Not(self.t))

    def logical_not(self):
        return SymBool(z3.Not(self.t))

    # numpy scalar API used as `(cond).all()` on 0-d results
    def all(self):
        return self

    def any(self):
        return self

    # arithmetic on booleans (e.g. `1 - terminate`, `-2 * (x > 0.5) + 1`)
    def _r(self):
        return SymReal(z3.If(self.t, z3.RealVal(1), z3.RealVal(0)))

    def __add__(self, o): return self._r() + o
    def __radd__(self, o): return o + self._r()
    def __sub__(self, o): return self._r() - o
    def __rsub__(self, o): return o - self._r()
    def __mul__(self, o): return self._r() * o
    def __rmul__(self, o): return o * self._r()
    def __neg__(self): return -self._r()

    def __index__(self):
        return int(bool(self))

    def __repr__(self):
        return f'<B {self.t}>'


def sbool(x):
    """z3 Bool of python bool / SymBool"""
    if isinstance(x, SymBool):
        return x.t
    return z3.BoolVal(bool(x))


class SymReal:
    __hash__ = None

    def __init__(self, t):
        self.t = t

    # ---- special-value aware binary arithmetic
    def _spec(self, o, op, rev):
        """self (finite real) op special float o"""
        if math.isnan(o):
            return float('nan')
        pos = o > 0
        if op in ('add',):
            return float(o)
        if op == 'sub':
            return float(-o) if not rev else float(o)
        if op == 'mul':
            if self > 0:
                return float(o)
            if self < 0:
                return float(-o)
            return float('nan')
        if op == 'div':
            if not rev:
                return 0.0
            if self > 0:
                return float(o)
            if self < 0:
                return float(-o)
            return float(o)  # inf / 0 = inf (sign of zero ignored)
        raise NeedsConcrete(f'{op} with {o}')

    def _b(self, o, op, rev=False):
        if is_special(o):
            return self._spec(o, op, rev)
        if isinstance(o, np.ndarray) and o.shape != ():
            return NotImplemented
        try:
            b = tz(o)
        except TypeError:
            return NotImplemented
        a = self.t
        if rev:
            a, b = b, a
        if op == 'add':
            r = a + b
        elif op == 'sub':
            r = a - b
        elif op == 'mul':
            r = a * b
        elif op == 'div':
            return _divide(a, b)
        else:
            raise NeedsConcrete(op)
        return SymReal(z3.simplify(r))

    def __add__(self, o): return self._b(o, 'add')
    def __radd__(self, o): return self._b(o, 'add', True)
    def __sub__(self, o): return self._b(o, 'sub')
    def __rsub__(self, o): return self._b(o, 'sub', True)
    def __mul__(self, o): return self._b(o, 'mul')
    def __rmul__(self, o): return self._b(o, 'mul', True)
    def __truediv__(self, o): return self._b(o, 'div')
    def __rtruediv__(self, o): return self._b(o, 'div', True)
    def __neg__(self): return SymReal(z3.simplify(-self.t))
    def __pos__(self): return self
    def __abs__(self): return SymReal(z3.If(self.t >= 0, self.t, -self.t))
    def conjugate(self): return self

    def __pow__(self, o):
        if isinstance(o, (int, np.integer)) or (isinstance(o, (float, np.floating)) and float(o).is_integer() and abs(o) <= 4):
            n = int(o)
            if -4 <= n <= 4:
                r = z3.RealVal(1)
                for _ in range(abs(n)):
                    r = r * self.t
                if n < 0:
                    return _divide(z3.RealVal(1), r)
                return SymReal(z3.simplify(r))
        if isinstance(o, (float, np.floating)) and float(o) == 0.5:
            return self.sqrt()
        if is_special(o):
            if math.isnan(o):
                return float('nan')
            a = abs(self)
            big = (a > 1) if o > 0 else (a < 1)
            if big:
                return float('inf')
            if a == 1:
                return 1.0
            return 0.0
        return _mkpow(self.t, tz(o))

    def __rpow__(self, o):
        if is_special(o):
            if math.isnan(o):
                return float('nan')
            if o > 0:
                if self > 0:
                    return float('inf')
                if self < 0:
                    return 0.0
                return 1.0
            raise NeedsConcrete('(-inf) ** symbolic')
        if isinstance(o, (int, float, np.integer, np.floating)):
            if o == 0:
                if self > 0:
                    return 0.0
                if self < 0:
                    return float('inf')
                return 1.0
            if o == 1:
                return 1.0
        return _mkpow(tz(o), self.t)

    # ---- comparisons
    def _cmp(self, o, op):
        if is_special(o):
            if math.isnan(o):
                return op == 'ne'
            pos = o > 0
            return {'lt': pos, 'le': pos, 'gt': not pos, 'ge': not pos, 'eq': False, 'ne': True}[op]
        if isinstance(o, np.ndarray) and o.shape != ():
            return NotImplemented
        try:
            b = tz(o)
        except TypeError:
            return NotImplemented
        a = self.t
        r = {'lt': a < b, 'le': a <= b, 'gt': a > b, 'ge': a >= b, 'eq': a == b, 'ne': a != b}[op]
        return SymBool(r)

    def __lt__(self, o): return self._cmp(o, 'lt')
    def __le__(self, o): return self._cmp(o, 'le')
    def __gt__(self, o): return self._cmp(o, 'gt')
    def __ge__(self, o): return self._cmp(o, 'ge')
    def __eq__(self, o): return self._cmp(o, 'eq')
    def __ne__(self, o): return self._cmp(o, 'ne')

    # ---- numpy calls these methods on object-array elements
    def exp(self):
        e = EXP(self.t)
        if Ctx.cur is not None:
            Ctx.cur.assume(e > 0)          # true fact about exp; keeps sign tests from forking
        return SymReal(e)

    def log(self):
        ctx = Ctx.cur
        if ctx is not None:
            ctx.defined.append(('log', self.t > 0))
        return SymReal(LOG(self.t))

    def sqrt(self): return _mkpow(self.t, z3.RealVal('1/2'))

    # further unary/binary ufunc methods numpy looks up on object elements
    def expm1(self): return self.exp() - 1
    def log1p(self): return (self + 1).log()
    def exp2(self): return (self * math.log(2.0)).exp()
    def log2(self): return self.log() / math.log(2.0)
    def log10(self): return self.log() / math.log(10.0)
    def square(self): return self * self
    def reciprocal(self): return 1 / self
    def cbrt(self): return SymReal(POW(self.t, z3.RealVal('1/3')))

    def logaddexp(self, o):
        if not isinstance(o, SymReal):
            o = SymReal(tz(o))
        return (self.exp() + o.exp()).log()

    def rlogaddexp(self, o):
        return self.logaddexp(o)

    def __bool__(self):
        # python truthiness of a number: x != 0
        return Ctx.cur.branch(self.t != 0)

    def __float__(self):
        raise NeedsConcrete('float() of a symbolic real')

    def __int__(self):
        raise NeedsConcrete('int() of a symbolic real')

    def __index__(self):
        raise NeedsConcrete('index from a symbolic real')

    def __round__(self, n=None):
        raise NeedsConcrete('round() of a symbolic real')

    def __repr__(self):
        return f'<{self.t}>'

    def copy(self):
        return self

    def __deepcopy__(self, memo):
        return self


def _mkpow(b, e):
    p = POW(b, e)
    if Ctx.cur is not None:
        Ctx.cur.assume(z3.Implies(b > 0, p > 0))   # true fact about real powers
    return SymReal(p)


def _divide(a, b):
    """a / b on z3 terms; ieee mode forks on b == 0, plain mode records b != 0."""
    ctx = Ctx.cur
    bs = z3.simplify(b)
    if z3.is_rational_value(bs):
        if bs.numerator_as_long() == 0:
            az = SymReal(a)
            if az > 0:
                return float('inf')
            if az < 0:
                return float('-inf')
            return float('nan')
        return SymReal(z3.simplify(a / bs))
    if ctx is not None and ctx.ieee_div:
        if ctx.branch(bs == 0):
            az = SymReal(a)
            if az > 0:
                return float('inf')
            if az < 0:
                return float('-inf')
            return float('nan')
    elif ctx is not None:
        ctx.defined.append(('div', bs != 0))
    return SymReal(z3.simplify(a / b))


def sym(name):
    return SymReal(z3.Real(name))


def symarr(prefix, *shape):
    a = np.empty(shape, dtype=object)
    for idx in np.ndindex(*shape):
        a[idx] = sym(prefix + ''.join(f'_{i}' for i in idx))
    return a


def objarr(values):
    """object ndarray from a (nested) list without numpy trying to be clever"""
    v = list(values)
    if v and isinstance(v[0], (list, tuple, np.ndarray)):
        a = np.empty((len(v), len(v[0])), dtype=object)
        for i, row in enumerate(v):
            for j, x in enumerate(row):
                a[i, j] = x
        return a
    a = np.empty(len(v), dtype=object)
    for i, x in enumerate(v):
        a[i] = x
    return a


class PathResult:
    __slots__ = ('ctx', 'status', 'value', 'exc')

    def __init__(self, ctx, status, value=None, exc=None):
        self.ctx, self.status, self.value, self.exc = ctx, status, value, exc


def explore(fn, max_paths=20000, tlimit=600.0, ieee_div=False, catch=(Exception,), prefix=None, sink=None):
    """Enumerate every solver-feasible path of fn(ctx).  Returns (paths, exhaustive, seconds).
    status: 'ok' | 'exc' (an ordinary exception of the code under analysis) | 'unsupported'."""
    pending = [list(prefix or [])]
    out = []
    if sink is not None:        # streaming: paths are handed to sink() and not retained
        class _Count(list):
            n = 0

            def append(self, x):
                self.n += 1
                sink(x)

            def __len__(self):
                return self.n
        out = _Count()
    t0 = time.time()
    exhaustive = True
    # watchdog: a single path that runs past the time limit (slow solver queries inside the code under analysis) is
    # abandoned and the exploration reported as not exhaustive; only in a process's main thread (signal based)
    import signal
    import threading
    use_alarm = threading.current_thread() is threading.main_thread() and hasattr(signal, 'setitimer')

    def _on_alarm(signum, frame):
        raise PathTimeout()
    old_handler = signal.signal(signal.SIGALRM, _on_alarm) if use_alarm else None
    try:
        while pending:
            if len(out) >= max_paths or time.time() - t0 > tlimit:
                exhaustive = False
                break
            dec = pending.pop()
            ctx = Ctx(dec, ieee_div=ieee_div)
            Ctx.cur = ctx
            timed_out = False
            try:
                if use_alarm:
                    signal.setitimer(signal.ITIMER_REAL, max(5.0, tlimit - (time.time() - t0) + 20.0))
                try:
                    v = fn(ctx)
                finally:
                    if use_alarm:
                        signal.setitimer(signal.ITIMER_REAL, 0)
                out.append(PathResult(ctx, 'ok', v))
            except PathTimeout:
                timed_out = True
            except PathAbort:
                pass
            except NeedsConcrete as e:
                out.append(PathResult(ctx, 'unsupported', None, e))
            except catch as e:  # noqa
                out.append(PathResult(ctx, 'exc', None, e))
            finally:
                Ctx.cur = None
            if timed_out:
                exhaustive = False
                break
            pending.extend(ctx.pending)
    finally:
        if use_alarm:
            signal.setitimer(signal.ITIMER_REAL, 0)
            signal.signal(signal.SIGALRM, old_handler)
    return out, exhaustive, time.time() - t0


# ---------------------------------------------------------------- solver helpers

def check_valid(hyps, goal, timeout_ms=60000, seed=0):
    """Is (hyps => goal) valid?  returns ('unsat'|'sat'|'unknown', model_or_None, seconds)."""
    s = z3.Solver()
    s.set('timeout', timeout_ms)
    s.set('random_seed', seed)
    s.add(*hyps)
    s.add(z3.Not(goal))
    t0 = time.time()
    r = s.check()
    dt = time.time() - t0
    return str(r), (s.model() if r == z3.sat else None), dt


def model_value(m, t, default=0.0):
    """float value of z3 term t under model m"""
    v = m.eval(t, model_completion=True)
    if z3.is_rational_value(v):
        return v.numerator_as_long() / v.denominator_as_long()
    if z3.is_algebraic_value(v):
        a = v.approx(20)
        return a.numerator_as_long() / a.denominator_as_long()
    try:
        return float(str(v))
    except Exception:
        return default


def robust_check(assertions, timeout_ms=10000, seeds=(0, 7, 13, 42)):
    """z3's non-linear engine is occasionally unlucky on a query it normally solves in a second:
    'unknown' is retried with other random seeds before it is reported (sat/unsat are final)."""
    last = z3.unknown
    for sd in seeds:
        s = z3.Solver()
        s.set('timeout', int(timeout_ms))
        s.set('random_seed', sd)
        s.add(*assertions)
        last = s.check()
        if last != z3.unknown:
            return last
    return last
