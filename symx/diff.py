"""Symbolic differentiator over traced z3 real terms (sum, product, quotient, ite, exp, log,
pow with symbolic exponent, registered unary UFs with a named derivative)."""
import z3

from .core import EXP, LOG, POW

DERIV = {}   # decl name -> function(arg) giving derivative of UF at arg


def register(decl, dfun):
    DERIV[decl.name()] = (decl, dfun)


def diff(t, x):
    memo = {}

    def D(t):
        k = t.get_id()
        if k not in memo:
            memo[k] = _D(t)
        return memo[k]

    def _D(t):
        if z3.is_const(t) and t.decl().kind() == z3.Z3_OP_UNINTERPRETED:
            return z3.RealVal(1) if t.eq(x) else z3.RealVal(0)
        if z3.is_rational_value(t) or z3.is_int_value(t) or z3.is_algebraic_value(t):
            return z3.RealVal(0)
        d = t.decl()
        k = d.kind()
        ch = t.children()
        if k == z3.Z3_OP_ADD:
            return z3.Sum([D(c) for c in ch])
        if k == z3.Z3_OP_SUB:
            r = D(ch[0])
            for c in ch[1:]:
                r = r - D(c)
            return r
        if k == z3.Z3_OP_UMINUS:
            return -D(ch[0])
        if k == z3.Z3_OP_MUL:
            tot = z3.RealVal(0)
            for i in range(len(ch)):
                term = D(ch[i])
                for j in range(len(ch)):
                    if j != i:
                        term = term * ch[j]
                tot = tot + term
            return tot
        if k == z3.Z3_OP_DIV:
            a, b = ch
            return (D(a) * b - a * D(b)) / (b * b)
        if k == z3.Z3_OP_TO_REAL:
            return z3.RealVal(0)
        if k == z3.Z3_OP_ITE:
            return z3.If(ch[0], D(ch[1]), D(ch[2]))
        if d.eq(EXP):
            return t * D(ch[0])
        if d.eq(LOG):
            return D(ch[0]) / ch[0]
        if d.eq(POW):
            b, a = ch
            da = z3.simplify(D(a))
            db = D(b)
            if z3.is_rational_value(da) and da.numerator_as_long() == 0:
                return t * (a * db / b)
            return t * (da * LOG(b) + a * db / b)
        if k == z3.Z3_OP_UNINTERPRETED and d.name() in DERIV and len(ch) == 1:
            _, dfun = DERIV[d.name()]
            return dfun(ch[0]) * D(ch[0])
        raise NotImplementedError(str(d))
    return z3.simplify(D(t))
