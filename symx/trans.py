"""Transcendental layer: eliminate exp/log/pow into pure non-linear real arithmetic with
*sound* axiom instances, so that `unsat` transfers to real analysis.  Two encodings:

* Ack  - Ackermannisation: every distinct exp(t) becomes a fresh real; axioms: positivity,
         trichotomy against 1, tangent bound, pairwise strict monotonicity, triple homomorphism.
* Mono - generator (monomial) normal form: exponents are expanded (sympy used purely as a
         term normaliser) into sum r_k*M_k; one fresh positive generator G_M = exp(M/q) per
         monomial; every exp(t) becomes a Laurent monomial of generators, so integer-coefficient
         splits hold by construction.

Only true facts about exp are ever added.  `sat` may be spurious and needs replay.
"""
import itertools
import math
import time

import sympy as sp
import z3

from .core import EXP, LOG, POW, model_value

TRIPLE_MAX = 18


def _collect_consts(t, acc, seen):
    stack = [t]
    while stack:
        x = stack.pop()
        if x.get_id() in seen:
            continue
        seen.add(x.get_id())
        if z3.is_const(x) and x.decl().kind() == z3.Z3_OP_UNINTERPRETED:
            acc[x.decl().name()] = x
        stack.extend(x.children())


def _exp_enclosure(t):
    """rational enclosure [lo, hi] of exp(c) for a numeric constant c with |c| <= 800 (sound: sympy evaluates to 60
    significant digits, the enclosure is widened by a relative 1e-40)"""
    t = z3.simplify(t)
    if not z3.is_rational_value(t):
        return None
    c = sp.Rational(t.numerator_as_long(), t.denominator_as_long())
    if abs(c) > 800:
        return None
    v = sp.Rational(str(sp.exp(c).evalf(60)))
    lo, hi = v * (1 - sp.Rational(1, 10**40)), v * (1 + sp.Rational(1, 10**40))
    return z3.RealVal(str(lo)), z3.RealVal(str(hi))


class Ack:
    name = 'ack'

    def __init__(self):
        self.exps = {}
        self.logs = {}
        self.side = []
        self.defined = []
        self.n = 0

    def fresh(self, p):
        self.n += 1
        return z3.Real(f'{p}!{self.n}')

    def exp_of(self, t):
        t = z3.simplify(t)
        k = t.get_id()
        if k not in self.exps:
            self.exps[k] = (t, self.fresh('e'))
        return self.exps[k][1]

    def log_of(self, s):
        s = z3.simplify(s)
        k = s.get_id()
        if k not in self.logs:
            y = self.fresh('l')
            self.logs[k] = (s, y)
            self.defined.append(s > 0)
            self.side.append(self.exp_of(y) == s)
        return self.logs[k][1]

    def rw(self, t):
        if z3.is_app(t):
            d = t.decl()
            ch = [self.rw(c) for c in t.children()]
            if d.eq(EXP):
                return self.exp_of(ch[0])
            if d.eq(LOG):
                return self.log_of(ch[0])
            if d.eq(POW):
                return self.exp_of(ch[1] * self.log_of(ch[0]))
            if ch:
                return d(*ch)
        return t

    def finish(self, homo=True):
        ax = list(self.side)
        E = list(self.exps.values())
        for t, e in E:
            ax.append(e > 0)
            ax.append(z3.And(z3.Implies(t < 0, e < 1), z3.Implies(t == 0, e == 1), z3.Implies(t > 0, e > 1)))
            ax.append(e >= 1 + t)
            enc = _exp_enclosure(t)
            if enc is not None:
                ax.append(z3.And(e >= enc[0], e <= enc[1]))
        for (t1, e1), (t2, e2) in itertools.combinations(E, 2):
            ax.append(z3.And(z3.Implies(t1 < t2, e1 < e2), z3.Implies(t1 == t2, e1 == e2), z3.Implies(t1 > t2, e1 > e2)))
        if homo and len(E) <= TRIPLE_MAX:
            for (t1, e1), (t2, e2) in itertools.combinations_with_replacement(E, 2):
                for t3, e3 in E:
                    ax.append(z3.Implies(t3 == t1 + t2, e3 == e1 * e2))
        return (lambda t: t), ax, len(E)


class Mono:
    name = 'mono'

    def __init__(self, pos=()):
        self.pos_names = set(pos)   # names of symbols known > 0 from the hypotheses
        self.opaque = {}            # id -> (fresh const, defining term)
        self.exp_arg = {}           # placeholder id -> z3 argument (for log(exp(t)) = t)
        self.syms = {}
        self.logs = {}
        self.exps = []
        self.memo = {}
        self.n = 0
        self.defined = []

    def fresh(self, p):
        self.n += 1
        return z3.Real(f'{p}!{self.n}')

    def to_sp(self, t):
        if z3.is_rational_value(t):
            return sp.Rational(t.numerator_as_long(), t.denominator_as_long())
        if z3.is_int_value(t):
            return sp.Integer(t.as_long())
        k = t.decl().kind()
        ch = t.children()
        if z3.is_const(t) and k == z3.Z3_OP_UNINTERPRETED:
            nm = t.decl().name()
            if nm not in self.syms:
                self.syms[nm] = (t, sp.Symbol(nm.replace('!', '_').replace('#', '_'), real=True))
            return self.syms[nm][1]
        if k == z3.Z3_OP_ADD:
            return sp.Add(*[self.to_sp(c) for c in ch])
        if k == z3.Z3_OP_MUL:
            return sp.Mul(*[self.to_sp(c) for c in ch])
        if k == z3.Z3_OP_SUB:
            r = self.to_sp(ch[0])
            for c in ch[1:]:
                r = r - self.to_sp(c)
            return r
        if k == z3.Z3_OP_UMINUS:
            return -self.to_sp(ch[0])
        if k == z3.Z3_OP_DIV:
            return self.to_sp(ch[0]) / self.to_sp(ch[1])
        if k == z3.Z3_OP_POWER:
            return self.to_sp(ch[0]) ** self.to_sp(ch[1])
        if k == z3.Z3_OP_TO_REAL:
            return self.to_sp(ch[0])
        # anything else (if-then-else, ...) becomes an opaque real atom defined by an equality
        key = t.get_id()
        if key not in self.opaque:
            o = self.fresh('O')
            self.opaque[key] = (o, t)
        return self.to_sp(self.opaque[key][0])

    def to_z3(self, e):
        if e.is_Rational:
            return z3.RealVal(f'{e.p}/{e.q}')
        if e.is_Symbol:
            for nm, (zt, ss) in self.syms.items():
                if ss == e:
                    return zt
            raise KeyError(e)
        if e.is_Add:
            return z3.Sum([self.to_z3(a) for a in e.args])
        if e.is_Mul:
            r = None
            for a in e.args:
                za = self.to_z3(a)
                r = za if r is None else r * za
            return r
        if e.is_Pow:
            b, ex = e.args
            if not ex.is_Integer:
                raise NotImplementedError(str(e))
            zb = self.to_z3(b)
            n = abs(int(ex))
            r = zb
            for _ in range(n - 1):
                r = r * zb
            return r if ex > 0 else 1 / r
        raise NotImplementedError(str(e))

    def rw(self, t):
        if z3.is_app(t):
            d = t.decl()
            ch = [self.rw(c) for c in t.children()]
            if d.eq(EXP):
                return self.mk_exp(ch[0])
            if d.eq(LOG):
                return self.mk_log(ch[0])
            if d.eq(POW):
                return self.mk_exp(ch[1] * self.mk_log(ch[0]))
            if ch:
                return d(*ch)
        return t

    def _split_log(self, e):
        """log of a product of known-positive factors = sum of logs (sound under the hypotheses
        that declare those symbols positive; exp placeholders are positive by definition)."""
        facs = sp.Mul.make_args(e)
        if len(facs) == 1 and not (facs[0].is_Pow or facs[0].is_Symbol):
            return None
        tot = None
        for f in facs:
            b, n = (f.args if f.is_Pow else (f, sp.Integer(1)))
            if f.is_Rational:
                if f <= 0:
                    return None
                if f == 1:
                    continue
                term = self._atom_log(self.to_z3(f), str(f))
            elif b.is_Symbol and n.is_Integer:
                nm = None
                for k_, (zt, ss) in self.syms.items():
                    if ss == b:
                        nm, zb = k_, zt
                if nm is None:
                    return None
                if zb.get_id() in self.exp_arg:
                    term = self.exp_arg[zb.get_id()] * int(n)
                elif nm in self.pos_names:
                    term = self._atom_log(zb, str(b)) * int(n)
                else:
                    return None
            else:
                return None
            tot = term if tot is None else tot + term
        return tot

    def _atom_log(self, s, k):
        if k not in self.logs:
            y = self.fresh('l')
            self.logs[k] = (s, y)
            self.defined.append(s > 0)
        return self.logs[k][1]

    def mk_log(self, s):
        s = z3.simplify(s)
        try:
            e = sp.expand(self.to_sp(s))
            k = str(e)
            if k not in self.logs:
                sp_ = self._split_log(sp.factor(e) if e.is_Add else e)
                if sp_ is not None:
                    return sp_
        except NotImplementedError:
            k = s.get_id()
        if k not in self.logs:
            y = self.fresh('l')
            self.logs[k] = (s, y)
            self.defined.append(s > 0)
        return self.logs[k][1]

    def mk_exp(self, arg):
        e = sp.expand(self.to_sp(arg))
        key = str(e)
        if key in self.memo:
            return self.memo[key]
        ph = self.fresh('E')
        self.exps.append((ph, e))
        self.memo[key] = ph
        self.exp_arg[ph.get_id()] = arg
        self.to_sp(ph)
        return ph

    def finish(self, homo=True):
        logph = {}
        for k, (s, y) in list(self.logs.items()):
            logph[k] = self.mk_exp(y)
        gens = {}
        decomp = []
        for ph, e in self.exps:
            terms = e.as_coefficients_dict()
            dd = {}
            for M, r in terms.items():
                r = sp.nsimplify(r)
                if not r.is_Rational:
                    raise NotImplementedError(f'non-rational coefficient {r} of {M}')
                dd[M] = r
                gens[M] = math.lcm(gens.get(M, 1), int(r.q))
            decomp.append((ph, dd))
        gvar = {M: self.fresh('G') for M in gens}
        sub = []
        for ph, dd in decomp:
            num = z3.RealVal(1)
            den = z3.RealVal(1)
            for M, r in dd.items():
                n = int(r * gens[M])
                for _ in range(abs(n)):
                    if n > 0:
                        num = num * gvar[M]
                    else:
                        den = den * gvar[M]
            sub.append((ph, num / den if not den.eq(z3.RealVal(1)) else num))
        ax = []
        G = []
        for M, q in gens.items():
            t = self.to_z3(M / q) if M != 1 else z3.RealVal(f'1/{q}')
            G.append((t, gvar[M]))
        seen = set(str(t) for t, _ in G)
        for (ph, e), (_, mono) in zip(self.exps, sub):
            if len(e.as_coefficients_dict()) > 1:
                t = self.to_z3(e)
                if str(t) not in seen:
                    seen.add(str(t))
                    G.append((t, mono))
        for t, g in G:
            ax += [g > 0, z3.Implies(t < 0, g < 1), z3.Implies(t == 0, g == 1), z3.Implies(t > 0, g > 1), g >= 1 + t]
        for (t1, g1), (t2, g2) in itertools.combinations(G, 2):
            ax.append(z3.And(z3.Implies(t1 < t2, g1 < g2), z3.Implies(t1 == t2, g1 == g2), z3.Implies(t1 > t2, g1 > g2)))
        for (t1, g1), (t2, g2) in itertools.combinations_with_replacement(G, 2):
            ax.append(z3.And(z3.Implies(t1 + t2 < 0, g1 * g2 < 1), z3.Implies(t1 + t2 == 0, g1 * g2 == 1),
                             z3.Implies(t1 + t2 > 0, g1 * g2 > 1)))
        if homo and len(G) <= TRIPLE_MAX:
            for (t1, g1), (t2, g2) in itertools.combinations_with_replacement(G, 2):
                for t3, g3 in G:
                    ax.append(z3.Implies(t3 == t1 + t2, g3 == g1 * g2))
        for k, (s, y) in self.logs.items():
            ax.append(logph[k] == s)
        for o, t in self.opaque.values():
            ax.append(o == t)

        def SS(t):
            for _ in range(8):
                t2 = z3.substitute(t, *sub) if sub else t
                if t2.eq(t):
                    break
                t = t2
            return t
        return SS, ax, len(gens)


ENCODINGS = {'ack': Ack, 'mono': Mono}


def positive_names(hyps):
    """symbols x with a hypothesis `x > 0` / `0 < x` / `x >= c>0`"""
    out = set()
    for h in hyps:
        if not z3.is_app(h):
            continue
        k = h.decl().kind()
        ch = h.children()
        if len(ch) != 2:
            continue
        a, b = ch
        def isc(t): return z3.is_const(t) and t.decl().kind() == z3.Z3_OP_UNINTERPRETED
        def val(t): return t.numerator_as_long() / t.denominator_as_long() if z3.is_rational_value(t) else None
        if k in (z3.Z3_OP_GT, z3.Z3_OP_GE) and isc(a) and val(b) is not None:
            if val(b) > 0 or (val(b) == 0 and k == z3.Z3_OP_GT):
                out.add(a.decl().name())
        if k in (z3.Z3_OP_LT, z3.Z3_OP_LE) and isc(b) and val(a) is not None:
            if val(a) > 0 or (val(a) == 0 and k == z3.Z3_OP_LT):
                out.add(b.decl().name())
    return out


def has_trans(t):
    seen = set()
    stack = [t]
    while stack:
        x = stack.pop()
        if x.get_id() in seen:
            continue
        seen.add(x.get_id())
        if z3.is_app(x):
            d = x.decl()
            if d.eq(EXP) or d.eq(LOG) or d.eq(POW):
                return True
        stack.extend(x.children())
    return False


def encode(enc_name, hyps, goal, hints=(), homo=True):
    """returns (assertions_for_negated_goal, definedness list (encoded), stats)"""
    enc = ENCODINGS[enc_name]()
    if enc_name == 'mono':
        enc.pos_names = positive_names(hyps)
    hy = [enc.rw(h) for h in hyps]
    g = enc.rw(goal)
    for h in hints:
        enc.rw(h)
    SS, ax, ng = enc.finish(homo)
    base = [SS(h) for h in hy] + [SS(a) for a in ax]
    return base, SS(g), [SS(d) for d in enc.defined], {'exps_or_gens': ng, 'axioms': len(ax)}


def prove(hyps, goal, hints=(), timeout_ms=60000, encodings=('mono', 'ack'), seed=0, homo=True,
          check_defined=True, dump=None):
    """Decide validity of hyps => goal over the reals with exp/log/pow.
    Returns dict(status, secs, encoding, model, stats, defined_ok)."""
    consts = {}
    seen = set()
    for h in list(hyps) + [goal]:
        _collect_consts(h, consts, seen)
    total = 0.0
    sat_model = None
    results = []
    any_trans = has_trans(goal) or any(has_trans(h) for h in hyps) or bool(hints)
    encs = encodings if any_trans else ('ack',)
    for en in encs:
        try:
            base, g, defined, stats = encode(en, hyps, goal, hints, homo)
        except NotImplementedError as e:
            results.append((en, 'unsupported:' + str(e)[:80]))
            continue
        s = z3.Solver()
        s.set('timeout', int(timeout_ms))
        s.set('random_seed', seed)
        s.add(*base)
        s.add(z3.Not(g))
        if dump is not None:
            dump.append((en, s.to_smt2()))
        t0 = time.time()
        r = s.check()
        dt = time.time() - t0
        total += dt
        results.append((en, str(r)))
        if r == z3.unsat:
            dok = True
            if check_defined:
                for dfn in defined:
                    s2 = z3.Solver()
                    s2.set('timeout', int(timeout_ms))
                    s2.add(*base)
                    s2.add(z3.Not(dfn))
                    t0 = time.time()
                    r2 = s2.check()
                    total += time.time() - t0
                    if r2 != z3.unsat:
                        dok = False
            return {'status': 'unsat', 'secs': total, 'encoding': en, 'model': None, 'stats': stats,
                    'defined_ok': dok, 'tried': results}
        if r == z3.sat and sat_model is None:
            m = s.model()
            sat_model = {nm: model_value(m, c) for nm, c in consts.items()}
    if sat_model is not None and all(r in ('sat',) or r.startswith('unsupported') for _, r in results):
        return {'status': 'sat', 'secs': total, 'encoding': results[0][0], 'model': sat_model, 'stats': {},
                'defined_ok': True, 'tried': results}
    if sat_model is not None:
        return {'status': 'sat?', 'secs': total, 'encoding': None, 'model': sat_model, 'stats': {},
                'defined_ok': True, 'tried': results}
    return {'status': 'unknown', 'secs': total, 'encoding': None, 'model': None, 'stats': {}, 'defined_ok': True,
            'tried': results}


# ------------------------------------------------------------ numeric evaluation of traced terms

def eval_term(t, env):
    """evaluate a z3 real/bool term with real math.exp/log for the abstracted functions;
    env: name -> float.  Used for translator validation and replay pre-screening."""
    memo = {}

    def ev(x):
        k = x.get_id()
        if k in memo:
            return memo[k]
        r = _ev(x)
        memo[k] = r
        return r

    def _ev(x):
        if z3.is_rational_value(x):
            return x.numerator_as_long() / x.denominator_as_long()
        if z3.is_int_value(x):
            return float(x.as_long())
        if z3.is_true(x):
            return True
        if z3.is_false(x):
            return False
        d = x.decl()
        k = d.kind()
        ch = x.children()
        if z3.is_const(x) and k == z3.Z3_OP_UNINTERPRETED:
            return env[d.name()]
        if d.eq(EXP):
            return math.exp(ev(ch[0]))
        if d.eq(LOG):
            return math.log(ev(ch[0]))
        if d.eq(POW):
            return math.pow(ev(ch[0]), ev(ch[1]))
        if k == z3.Z3_OP_ADD:
            return sum(ev(c) for c in ch)
        if k == z3.Z3_OP_MUL:
            r = 1.0
            for c in ch:
                r *= ev(c)
            return r
        if k == z3.Z3_OP_SUB:
            r = ev(ch[0])
            for c in ch[1:]:
                r -= ev(c)
            return r
        if k == z3.Z3_OP_UMINUS:
            return -ev(ch[0])
        if k == z3.Z3_OP_DIV:
            return ev(ch[0]) / ev(ch[1])
        if k == z3.Z3_OP_POWER:
            return ev(ch[0]) ** ev(ch[1])
        if k == z3.Z3_OP_TO_REAL:
            return ev(ch[0])
        if k == z3.Z3_OP_ITE:
            return ev(ch[1]) if ev(ch[0]) else ev(ch[2])
        if k == z3.Z3_OP_LE:
            return ev(ch[0]) <= ev(ch[1])
        if k == z3.Z3_OP_LT:
            return ev(ch[0]) < ev(ch[1])
        if k == z3.Z3_OP_GE:
            return ev(ch[0]) >= ev(ch[1])
        if k == z3.Z3_OP_GT:
            return ev(ch[0]) > ev(ch[1])
        if k == z3.Z3_OP_EQ:
            return ev(ch[0]) == ev(ch[1])
        if k == z3.Z3_OP_DISTINCT:
            return ev(ch[0]) != ev(ch[1])
        if k == z3.Z3_OP_AND:
            return all(ev(c) for c in ch)
        if k == z3.Z3_OP_OR:
            return any(ev(c) for c in ch)
        if k == z3.Z3_OP_NOT:
            return not ev(ch[0])
        if k == z3.Z3_OP_IMPLIES:
            return (not ev(ch[0])) or ev(ch[1])
        raise NotImplementedError(str(d))
    return ev(t)


# ------------------------------------------------------------ identities via cleared denominators

def clear_div(t):
    """z3 real term -> (num, den, divisors): division-free num/den with t == num/den wherever every
    term in `divisors` is non-zero."""
    divisors = []
    memo = {}
    one = z3.RealVal(1)

    def go(x):
        k = x.get_id()
        if k in memo:
            return memo[k]
        r = _go(x)
        memo[k] = r
        return r

    def is_one(d):
        return z3.is_rational_value(d) and d.numerator_as_long() == d.denominator_as_long()

    def mul(a, b):
        if is_one(a):
            return b
        if is_one(b):
            return a
        return a * b

    def _go(x):
        if not z3.is_app(x) or x.num_args() == 0:
            return x, one
        kd = x.decl().kind()
        ch = [go(c) for c in x.children()]
        if kd == z3.Z3_OP_ADD or kd == z3.Z3_OP_SUB:
            n, d = ch[0]
            for (n2, d2) in ch[1:]:
                if d.eq(d2):
                    n = n + n2 if kd == z3.Z3_OP_ADD else n - n2
                else:
                    n = (mul(n, d2) + mul(n2, d)) if kd == z3.Z3_OP_ADD else (mul(n, d2) - mul(n2, d))
                    d = mul(d, d2)
            return n, d
        if kd == z3.Z3_OP_UMINUS:
            return -ch[0][0], ch[0][1]
        if kd == z3.Z3_OP_MUL:
            n, d = ch[0]
            for (n2, d2) in ch[1:]:
                n, d = mul(n, n2), mul(d, d2)
            return n, d
        if kd == z3.Z3_OP_DIV:
            (n1, d1), (n2, d2) = ch
            divisors.append(n2)
            return mul(n1, d2), mul(d1, n2)
        if kd == z3.Z3_OP_TO_REAL:
            return x, one
        raise NotImplementedError(f'clear_div: {x.decl()}')
    n, d = go(t)
    return n, d, divisors


def prove_identity(hyps, lhs, rhs, timeout_ms=60000, seed=0, rel='=='):
    """Prove lhs == rhs (terms with exp/log/pow) by generator normal form + substitution of the
    definitional log equalities + cleared denominators; z3 decides the resulting polynomial
    (in)equation and the non-vanishing of every divisor."""
    consts = {}
    seen = set()
    for h in list(hyps) + [lhs, rhs]:
        _collect_consts(h, consts, seen)
    enc = Mono()
    enc.pos_names = positive_names(hyps)
    hy = [enc.rw(h) for h in hyps]
    L = enc.rw(lhs)
    R = enc.rw(rhs)
    SS, ax, ng = enc.finish(homo=False)
    # definitional substitutions  G := s   from  exp(y_s) == s
    defs = []
    for a in ax:
        a2 = SS(a)
        if z3.is_eq(a2):
            l, r = a2.children()
            l = z3.simplify(l)
            if z3.is_const(l) and l.decl().kind() == z3.Z3_OP_UNINTERPRETED and l.decl().name().startswith('G!'):
                defs.append((l, r))

    def SD(t):
        for _ in range(10):
            t2 = z3.substitute(t, *defs) if defs else t
            if t2.eq(t):
                break
            t = t2
        return t
    Lz, Rz = SD(SS(L)), SD(SS(R))
    base = [SD(SS(h)) for h in hy] + [SD(SS(a)) for a in ax]
    try:
        nl, dl, dv1 = clear_div(Lz)
        nr, dr, dv2 = clear_div(Rz)
    except NotImplementedError as e:
        return {'status': 'unknown', 'secs': 0.0, 'encoding': 'ident', 'model': None, 'tried': [('ident', str(e))],
                'defined_ok': True, 'stats': {}}
    s = z3.Solver()
    s.set('timeout', int(timeout_ms))
    s.set('random_seed', seed)
    s.add(*base)
    a, b = nl * dr, nr * dl
    goal = {'==': a == b}[rel]
    s.add(z3.Not(goal))
    t0 = time.time()
    r = s.check()
    dt = time.time() - t0
    res = {'status': str(r), 'secs': dt, 'encoding': 'ident', 'model': None, 'tried': [('ident', str(r))],
           'defined_ok': True, 'stats': {'gens': ng, 'divisors': len(dv1) + len(dv2)}}
    if r == z3.sat:
        m = s.model()
        res['model'] = {nm: model_value(m, c) for nm, c in consts.items()}
        return res
    if r != z3.unsat:
        return res
    # every divisor and every log argument must be provably non-zero / positive
    todo = []
    seen_ids = set()
    for dvs in dv1 + dv2:
        if dvs.get_id() not in seen_ids:
            seen_ids.add(dvs.get_id())
            todo.append(dvs != 0)
    for dfn in enc.defined:
        todo.append(SD(SS(dfn)))
    for cnd in todo:
        if z3.is_true(z3.simplify(cnd)):
            continue
        s2 = z3.Solver()
        s2.set('timeout', int(timeout_ms))
        s2.add(*base)
        s2.add(z3.Not(cnd))
        t0 = time.time()
        r2 = s2.check()
        res['secs'] += time.time() - t0
        if r2 != z3.unsat:
            res['defined_ok'] = False
            res['status'] = 'unknown'
            res['tried'].append(('divisor', str(r2), str(cnd)[:80]))
            return res
    return res
