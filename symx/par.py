"""Prefix-parallel path exploration: a sequential breadth-first phase collects a frontier of
decision prefixes; each prefix's subtree is then explored (and analysed) in a forked worker.
z3 objects never cross process boundaries: `analyse(paths)` must return plain data."""
import multiprocessing as mp
import time

from .core import Ctx, NeedsConcrete, PathAbort, PathResult, PathTimeout, explore

_G = {}


class WorkerError(Exception):
    pass


def _worker(i):
    fn, analyse, kw = _G['fn'], _G['analyse'], _G['kw']
    try:
        chunk = _G.get('chunk')
        if chunk:
            # streaming: analyse every `chunk` paths and drop them (bounded memory); the whole
            # budget covers exploration and analysis together
            kw = dict(kw, tlimit=max(5.0, _G['t0'] + _G['tlimit'] - time.time()))
            buf, outs = [], []

            def sink(p):
                buf.append(p)
                if len(buf) >= chunk:
                    outs.append(analyse(list(buf)))
                    buf.clear()
            paths, ex, dt = explore(fn, prefix=_G['prefixes'][i], sink=sink, **kw)
            if buf:
                outs.append(analyse(list(buf)))
            return outs, ex, len(paths)
        kw = dict(kw, tlimit=max(5.0, _G['deadline'] - time.time()))
        paths, ex, dt = explore(fn, prefix=_G['prefixes'][i], **kw)
        return analyse(paths), ex, len(paths)
    except BaseException:      # a BaseException escaping a pool worker would hang the pool
        import traceback
        return WorkerError(traceback.format_exc()[-1500:]), False, 0


def par_explore(fn, analyse, nprocs=16, frontier=48, tlimit=600.0, ieee_div=False, catch=(Exception,), max_paths=200000, chunk=None):
    """returns (list of analyse() outputs, exhaustive, total_paths, seconds)"""
    t0 = time.time()
    pending = [[]]
    done = []
    import signal
    import threading
    use_alarm = threading.current_thread() is threading.main_thread() and hasattr(signal, 'setitimer')
    phase1_timeout = False

    def _on_alarm(signum, frame):
        raise PathTimeout()
    if use_alarm:
        signal.signal(signal.SIGALRM, _on_alarm)
    # phase 1: breadth-first until the frontier is wide enough
    while pending and len(pending) < frontier and time.time() - t0 < tlimit:
        dec = pending.pop(0)
        ctx = Ctx(dec, ieee_div=ieee_div)
        Ctx.cur = ctx
        try:
            if use_alarm:
                signal.setitimer(signal.ITIMER_REAL, max(5.0, tlimit - (time.time() - t0) + 20.0))
            try:
                v = fn(ctx)
            finally:
                if use_alarm:
                    signal.setitimer(signal.ITIMER_REAL, 0)
            done.append(PathResult(ctx, 'ok', v))
        except PathTimeout:
            phase1_timeout = True
            break
        except PathAbort:
            pass
        except NeedsConcrete as e:
            done.append(PathResult(ctx, 'unsupported', None, e))
        except catch as e:  # noqa
            done.append(PathResult(ctx, 'exc', None, e))
        finally:
            Ctx.cur = None
        pending.extend(ctx.pending)
    outs = [analyse(done)] if done else []
    total = len(done)
    exhaustive = not phase1_timeout
    if pending and not phase1_timeout:
        _G.update(fn=fn, analyse=analyse, prefixes=pending, chunk=chunk, t0=t0, tlimit=tlimit, deadline=t0 + 0.5 * tlimit,   # the other half is left for analyse()
                  kw=dict(tlimit=max(10.0, tlimit - (time.time() - t0)), ieee_div=ieee_div, catch=catch, max_paths=max_paths))
        ctx = mp.get_context('fork')
        with ctx.Pool(min(nprocs, len(pending))) as pool:
            for out, ex, n in pool.imap_unordered(_worker, range(len(pending)), chunksize=1):
                if isinstance(out, WorkerError):
                    raise out
                if isinstance(out, list):
                    outs.extend(out)
                else:
                    outs.append(out)
                exhaustive = exhaustive and ex
                total += n
    return outs, exhaustive, total, time.time() - t0
